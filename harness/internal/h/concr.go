package h

import (
	"fmt"
	"math/rand"
	"sync"
)

// MakeConcr builds the concretisation table selected by the dimensions.
// Profiles are order preserving on keys; "plain" is human readable, the
// others draw keys and values from adversarial classes (C19).
func MakeConcr(d Dims) *Concr {
	c := DefaultConcr(d.NKeys)
	switch d.ConcrProfile {
	case "", "plain":
	case "edge":
		// keys: empty key first, then 0x00, 0x00 0x00, 0xFF..., shared prefixes
		pool := [][]byte{{}, {0}, {0, 0}, {0, 1}, []byte("0m1o2s"), []byte("0m1o2s0m1o2s"), []byte("k"), []byte("k\x00"), []byte("kk"), {0xFF}, {0xFF, 0}, {0xFF, 0xFF}}
		r := rand.New(rand.NewSource(d.Seed))
		idx := r.Perm(len(pool))[:d.NKeys]
		sortInts(idx)
		c.Keys = nil
		for _, i := range idx {
			c.Keys = append(c.Keys, pool[i])
		}
		vals := [][]byte{{0}, {0xFF}, []byte("0m1o2s0m1o2s"), []byte("3s4p5s3s4p5s"), []byte("v"), {0, 0, 0}}
		for t := 1; t < 10; t++ {
			c.Tokens[t] = vals[r.Intn(len(vals))]
			c.Tokens[10+t] = vals[r.Intn(len(vals))]
		}
		// distinct tokens must stay distinguishable
		for t := 1; t < 10; t++ {
			c.Tokens[t] = append(append([]byte{}, c.Tokens[t]...), byte('0'+t))
			c.Tokens[10+t] = append(append([]byte{}, c.Tokens[10+t]...), byte('a'+t))
		}
	case "emptykey":
		// key 1 is the empty key (so a batch holding only key 1 with an empty value or a
		// deletion is a segment without any key or value bytes); the others follow it
		c.Keys[0] = []byte{}
		for i := 1; i < len(c.Keys); i++ {
			c.Keys[i] = append([]byte{0}, byte(i))
		}
	case "aliasmerge":
		// no separator and an empty first operand: Merge(k, m1) leaves the value as it is, so the
		// aliasing merge operator (Dims.MergeAlias) hands back existingValue itself
		c.Sep = ""
		c.Tokens[11] = []byte{}
	case "sized":
		// values of very different sizes, so that the persisted segments fall into different
		// levels of the store's leveled compaction and partial compactions get splice points > 0
		c.Tokens[2] = bytesOf('B', 400)
		c.Tokens[9] = bytesOf('P', 1500)
		c.Tokens[12] = bytesOf('M', 150)
	case "limits", "limits28":
		// the documented limits: the last key has the longest accepted length (2^24-1 bytes), the
		// value of "s2" has a page-size multiple ("limits") or the longest accepted length
		// (2^28-1 bytes, "limits28"); everything else stays small
		c.Keys[len(c.Keys)-1] = bytesOf('z', 1<<24-1)
		if d.ConcrProfile == "limits28" {
			c.Tokens[2] = bytesOf('V', 1<<28-1)
		} else {
			c.Tokens[2] = bytesOf('V', 3*4096)
		}
	default:
		panic(fmt.Sprintf("unknown concretisation profile %q", d.ConcrProfile))
	}
	return c
}

func bytesOf(b byte, n int) []byte {
	out := make([]byte, n)
	for i := range out {
		out[i] = b
	}
	return out
}

var (
	oversizeOnce         sync.Once
	oversizeK, oversizeV []byte
)

func oversizeInit() {
	oversizeOnce.Do(func() {
		oversizeK = bytesOf('K', 1<<24) // one byte more than the longest key
		oversizeV = bytesOf('W', 1<<28) // one byte more than the longest value
	})
}

// OversizeKey is a key the batch must reject with ErrKeyTooLarge.
func OversizeKey() []byte { oversizeInit(); return oversizeK }

// OversizeVal is a value the batch must reject with ErrValueTooLarge.
func OversizeVal() []byte { oversizeInit(); return oversizeV }

func sortInts(a []int) {
	for i := 1; i < len(a); i++ {
		for j := i; j > 0 && a[j] < a[j-1]; j-- {
			a[j], a[j-1] = a[j-1], a[j]
		}
	}
}
