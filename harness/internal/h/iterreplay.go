package h

import (
	"encoding/json"
	"fmt"
	"io/ioutil"
	"os"
	"time"

	"github.com/couchbase/moss"
)

// IterDims: harness dimensions of iterator replays.
type IterDims struct {
	Mode     string `json:"mode"` // "mem" | "store" | "app"
	N        int    `json:"n"`
	MaxTries int    `json:"maxTries"`
	Keyset   string `json:"keyset"`
	Deferred bool   `json:"deferredSort"`
}

type IterRet struct {
	Done bool `json:"done"`
	K    int  `json:"k"`
	Src  int  `json:"src"`
	Del  bool `json:"del"` // a deletion entry (IncludeDeletions): the value is nil
}
type IterCall struct {
	Call string          `json:"call"`
	Arg  json.RawMessage `json:"arg"`
	Ret  string          `json:"ret"`
	Cur  IterRet         `json:"cur"` // what the implementation-shaped iterator of the spec returns
	Ref  IterRet         `json:"ref"` // what the reference (the property) requires
	Kind string          `json:"kind"`
}
type iterStart struct {
	Segs [][]string `json:"segs"`
	LL   []bool     `json:"ll"`
	Sb   int        `json:"sb"`
	Eb   int        `json:"eb"`

	IncDel bool `json:"incDel"`
	SkipLL bool `json:"skipLL"`
}

// iterKeys maps the doubled domain 1..2N+1 to bytes: even positions are keys,
// odd positions lie strictly between (below / above) them.
func iterKeys(set string, n int) [][]byte {
	var keys, gaps [][]byte
	switch set {
	case "", "prefix":
		keys = [][]byte{[]byte("a"), []byte("ab"), []byte("b"), []byte("ba"), []byte("c")}
		gaps = [][]byte{[]byte(""), []byte("a\x00"), []byte("az"), []byte("b\x00"), []byte("bb"), []byte("d")}
	case "emptykey":
		// the empty key, 0x00 and 0xFF keys; nothing sorts below "" or between "" and "\x00",
		// so positions 1 and 3 are skipped by the caller
		keys = [][]byte{[]byte(""), []byte("\x00"), []byte("\x01"), []byte("\xff"), []byte("\xff\xff")}
		gaps = [][]byte{nil, nil, []byte("\x00\x00"), []byte("\x02"), []byte("\xff\x00"), []byte("\xff\xff\x00")}
	default:
		panic("unknown keyset " + set)
	}
	out := make([][]byte, 2*n+2)
	for p := 1; p <= 2*n+1; p++ {
		if p%2 == 0 {
			out[p] = keys[p/2-1]
		} else {
			out[p] = gaps[(p-1)/2]
		}
	}
	return out
}

// ReplayIter builds the snapshot shape TLC chose in a real collection (one
// batch per segment, merger parked; the lower-level layer persisted first)
// and runs the iterator program, comparing every return value.
func ReplayIter(id int, d IterDims, calls []IterCall) (res Result) {
	res.ID = id
	if len(calls) == 0 || calls[0].Call != "Start" {
		res.Status, res.Infra = "infra", "behaviour does not begin with Start"
		return
	}
	var st iterStart
	if err := json.Unmarshal(calls[0].Arg, &st); err != nil {
		res.Status, res.Infra = "infra", err.Error()
		return
	}
	if d.Keyset == "emptykey" {
		// positions 1 and 3 cannot be concretised below / between "" and "\x00"
		bad := func(p int) bool { return p == 1 || p == 3 }
		if bad(st.Sb) || bad(st.Eb) {
			res.Status = "skip"
			return
		}
		for _, c := range calls[1:] {
			var x int
			if c.Call == "SeekTo" && json.Unmarshal(c.Arg, &x) == nil && bad(x) {
				res.Status = "skip"
				return
			}
		}
	}
	pos := iterKeys(d.Keyset, d.N)
	moss.DefaultNaiveSeekToMaxTries = d.MaxTries
	hasLL := false
	for _, b := range st.LL {
		hasLL = hasLL || b
	}
	if hasLL && d.Mode == "mem" {
		res.Status = "skip"
		return
	}
	Install()
	sched := NewSched()
	sched.Open("exec.beforeLock", "merger.beforeIngest", "close.beforeWait")
	co := moss.CollectionOptions{MaxPreMergerBatches: 16, MergerIdleRunTimeoutMS: -1, DeferredSort: d.Deferred}
	var coll moss.Collection
	var store *moss.Store
	var dir string
	var app *AppStore
	defer func() {
		sched.OpenAll()
		if coll != nil {
			coll.Close()
		}
		if store != nil {
			store.Close()
		}
		sched.Unbind()
		if dir != "" {
			os.RemoveAll(dir)
		}
	}()
	var err error
	switch d.Mode {
	case "mem":
		coll, err = moss.NewCollection(co)
		if err == nil {
			sched.Bind(coll, nil)
			err = coll.Start()
		}
	case "app":
		app = NewAppStore()
		co.LowerLevelUpdate = app.Update
		coll, err = moss.NewCollection(co)
		if err == nil {
			sched.Bind(coll, nil)
			err = coll.Start()
		}
	case "store":
		dir, err = ioutil.TempDir(scratchBase(), "iter")
		if err == nil {
			store, coll, err = moss.OpenStoreCollection(dir, moss.StoreOptions{CollectionOptions: co}, moss.StorePersistOptions{})
			if err == nil {
				sched.Bind(coll, store)
			}
		}
	}
	if err != nil {
		res.Status, res.Infra = "infra", "open: "+err.Error()
		return
	}
	if err := sched.AwaitParked("merger.loop", stepTimeout); err != nil {
		res.Status, res.Infra = "infra", err.Error()
		return
	}
	put := func(ops []string, tag int, all []bool) error {
		b, err := coll.NewBatch(0, 0)
		if err != nil {
			return err
		}
		n := 0
		for k := 1; k <= d.N; k++ {
			key := pos[2*k]
			if all != nil {
				if all[k-1] {
					b.Set(key, []byte(fmt.Sprintf("v%d", tag)))
					n++
				}
				continue
			}
			switch ops[k-1] {
			case "set":
				b.Set(key, []byte(fmt.Sprintf("v%d", tag)))
				n++
			case "del":
				b.Del(key)
				n++
			}
		}
		if n == 0 {
			return nil
		}
		err = coll.ExecuteBatch(b, moss.WriteOptions{})
		b.Close()
		return err
	}
	if hasLL {
		if err := put(nil, 0, st.LL); err != nil {
			res.Status, res.Infra = "infra", err.Error()
			return
		}
		// one full cycle: ingest, merge, hand off, persist
		mark := sched.Mark()
		steps := []struct{ gate, ev string }{{"merger.loop", "merger.ingest"}, {"merger.beforeSwap", "merger.swap"}, {"merger.beforeHandoff", "merger.handoff"}}
		for _, s := range steps {
			if err := sched.AwaitParked(s.gate, stepTimeout); err != nil {
				res.Status, res.Infra = "infra", err.Error()
				return
			}
			sched.Release(s.gate)
			if _, err := sched.AwaitEvent(mark, stepTimeout, s.ev); err != nil {
				res.Status, res.Infra = "infra", err.Error()
				return
			}
		}
		for _, g := range []string{"persister.beforeUpdate", "persister.beforeSwap"} {
			if err := sched.AwaitParked(g, stepTimeout); err != nil {
				res.Status, res.Infra = "infra", err.Error()
				return
			}
			sched.Release(g)
		}
		if _, err := sched.AwaitEvent(mark, stepTimeout, "persister.swap"); err != nil {
			res.Status, res.Infra = "infra", err.Error()
			return
		}
	}
	for i, seg := range st.Segs {
		if err := put(seg, i+1, nil); err != nil {
			res.Status, res.Infra = "infra", err.Error()
			return
		}
	}
	ss, err := coll.Snapshot()
	if err != nil {
		res.Status, res.Infra = "infra", err.Error()
		return
	}
	defer ss.Close()
	var sb, eb []byte
	if st.Sb != 0 {
		sb = pos[st.Sb]
		if sb == nil {
			sb = []byte{}
		}
	}
	if st.Eb != 2*d.N+2 {
		eb = pos[st.Eb]
		if eb == nil {
			eb = []byte{}
		}
	}
	iter, err := ss.StartIterator(sb, eb, moss.IteratorOptions{IncludeDeletions: st.IncDel, SkipLowerLevel: st.SkipLL})
	if err != nil {
		res.Status, res.Infra = "infra", "StartIterator: "+err.Error()
		return
	}
	if iter == nil {
		res.Status, res.Infra = "infra", "nil iterator"
		return
	}
	defer iter.Close()
	res.Shapes = []string{fmt.Sprintf("%T", iter)}
	check := func(i int, c IterCall, callErr error, isCall bool) {
		sr := StepResult{Step: i, Act: c.Call}
		showRet := func(r IterRet) string {
			if r.Done {
				return "done"
			}
			if r.Del {
				return fmt.Sprintf("%q=<deleted>", pos[2*r.K])
			}
			return fmt.Sprintf("%q=v%d", pos[2*r.K], r.Src)
		}
		note := ""
		if c.Cur != c.Ref {
			note = "pred=" + showRet(c.Cur) // the implementation-shaped model predicts this deviation
		}
		if isCall {
			gotDone := callErr == moss.ErrIteratorDone
			if callErr != nil && !gotDone {
				sr.Mismatches = append(sr.Mismatches, Mismatch{What: "iter.err", Got: callErr.Error()})
			} else if gotDone != c.Ref.Done {
				sr.Mismatches = append(sr.Mismatches, Mismatch{What: "iter.ret", Got: fmt.Sprint(callErr), Want: showRet(c.Ref), Note: note})
			}
		}
		k, v, err := iter.Current()
		isDel := false
		if st.IncDel {
			// with IncludeDeletions the entries are read with CurrentEx (Current returns a nil key for a deletion)
			var ex moss.EntryEx
			ex, k, v, err = iter.CurrentEx()
			isDel = err == nil && ex.Operation == moss.OperationDel
		}
		got := "done"
		if err == nil {
			got = fmt.Sprintf("%q=%s", k, v)
			if isDel {
				got = fmt.Sprintf("%q=<deleted>", k)
			}
		} else if err != moss.ErrIteratorDone {
			got = "err=" + err.Error()
		}
		if got != showRet(c.Ref) {
			sr.Mismatches = append(sr.Mismatches, Mismatch{What: "iter.current", Key: c.Ref.K, Got: got, Want: showRet(c.Ref), Note: note})
		}
		if got != showRet(c.Cur) {
			sr.Drift = append(sr.Drift, fmt.Sprintf("implementation-shaped model predicted %s, implementation returned %s", showRet(c.Cur), got))
		}
		if len(sr.Mismatches) > 0 || len(sr.Drift) > 0 {
			res.Steps = append(res.Steps, sr)
		}
	}
	check(0, calls[0], nil, false)
	for i, c := range calls[1:] {
		var err error
		done := make(chan struct{})
		go func() {
			defer close(done)
			err = safely(func() error {
				switch c.Call {
				case "Next":
					return iter.Next()
				case "SeekTo":
					var x int
					json.Unmarshal(c.Arg, &x)
					b := pos[x]
					if b == nil {
						b = []byte{}
					}
					return iter.SeekTo(b)
				}
				return fmt.Errorf("unknown call %s", c.Call)
			})
		}()
		select {
		case <-done:
		case <-time.After(stepTimeout):
			res.Status, res.Infra = "infra", "iterator call did not return"
			return
		}
		check(i+1, c, err, true)
	}
	res.Status = "ok"
	for _, sr := range res.Steps {
		if len(sr.Mismatches) > 0 {
			res.Status = "mismatch"
		}
	}
	return
}
