package h

import (
	"encoding/json"
	"fmt"
	"io/ioutil"
	"os"
	"path/filepath"
	"strings"
	"time"
	"unsafe"

	"github.com/couchbase/moss"
)

// Dims are the harness dimensions: configuration that is not part of the
// specification state and over which every behaviour can be replayed.
type Dims struct {
	Mode             string   `json:"mode"` // "mem" | "app" | "store"
	CachePersisted   bool     `json:"cachePersisted"`
	DeferredSort     bool     `json:"deferredSort"`
	MinMergePct      float64  `json:"minMergePct"`
	MaxPre           int      `json:"maxPre"`
	Compaction       string   `json:"compaction"` // "disable" | "allow" | "force"
	LevelMaxSegs     int      `json:"levelMaxSegs"`
	LevelMult        int      `json:"levelMult"`
	NoSync           bool     `json:"noSync"`
	Sparse           bool     `json:"sparse"` // observe only where the behaviour says so
	AllocBatches     bool     `json:"allocBatches"`
	AllocMix         bool     `json:"allocMix"` // with allocBatches: every other operation through the plain Set/Del/Merge
	NKeys            int      `json:"nkeys"`
	Paths            []string `json:"paths"`
	LeakCheck        bool     `json:"leakCheck"` // C15: after everything is closed nothing of the directory may stay open or mapped
	KeepFiles        bool     `json:"keepFiles"`
	CloseOrder       string   `json:"closeOrder"`    // "snapsFirst" (default) | "storeFirst": order in which the driver closes what the behaviour left open
	Preload          []int    `json:"preload"`       // keys the lower level holds (token 9) before the behaviour starts
	PreloadRounds    int      `json:"preloadRounds"` // the preload is persisted this many times over (separate rounds, no compaction): a footer with that many segment locations (longer than a page from about thirty)
	PreloadKids      []string `json:"preloadKids"`   // child collection paths (parents first) the lower level holds, each with key 1 = token 9
	ConcrProfile     string   `json:"concr"`
	OpOrder          string   `json:"opOrder"`          // "" (ascending keys) | "desc": order in which the operations are put into a batch
	CompactionPct    float64  `json:"compactionPct"`    // StoreOptions.CompactionPercentage (1.0: never "too fragmented" for a partial compaction)
	Rolling          bool     `json:"rolling"`          // hold a store snapshot and a clean collection snapshot across every persistence round
	IndexMinKeyBytes int      `json:"indexMinKeyBytes"` // StoreOptions.SegmentKeysIndexMinKeyBytes (default 10 MB: no key index on small segments)
	IndexMaxBytes    int      `json:"indexMaxBytes"`    // StoreOptions.SegmentKeysIndexMaxBytes
	NoEpilogue       bool     `json:"noEpilogue"`       // skip the idle rounds after the last step
	CopyCheck        bool     `json:"copyCheck"`        // C10: values returned by copying Gets are kept and must be intact, and outside every mapping of the store, once everything is closed
	MergeAlias       bool     `json:"mergeAlias"`       // merge operator that hands back existingValue itself when the operands change nothing (concretisation "aliasmerge")
	DiskCheck        bool     `json:"diskCheck"`        // after every persistence round: copy the directory, open the copy, compare with the model's store
	Seed             int64    `json:"seed"`
}

// BNode / Step / Expect mirror the records TLC prints (MossColl!Log).
type Op struct {
	O string `json:"o"`
	V []int  `json:"v"`
}
type BNode struct {
	Kind string `json:"kind"`
	Ops  []Op   `json:"ops"`
}
type SnapExp struct {
	Open bool    `json:"open"`
	C    Content `json:"c"`
}
type Expect struct {
	Ref   Content   `json:"ref"`
	Gz    bool      `json:"gz"`
	St    Content   `json:"st"`
	Up    int       `json:"up"`
	Nb    int       `json:"nb"`
	H     []int     `json:"h"`
	Snaps []SnapExp `json:"snaps"`
	Dg    []Val     `json:"dg"`
	Mv    []Val     `json:"mv"` // MossColl!MemView: content read with SkipLowerLevel
	So    bool      `json:"so"` // no segment in top/mid/base at any level: only structural changes can be unpersisted
}
type Step struct {
	Act string          `json:"act"`
	Arg json.RawMessage `json:"arg"`
	Exp Expect          `json:"exp"`
}

// StepResult is what one replayed step found.
type StepResult struct {
	Step       int        `json:"step"`
	Act        string     `json:"act"`
	Mismatches []Mismatch `json:"mismatches,omitempty"`
	Drift      []string   `json:"drift,omitempty"`
	Heights    []int      `json:"heights,omitempty"`
	Gz0        bool       `json:"gz0,omitempty"`
	Abort      bool       `json:"abort,omitempty"` // the implementation legitimately left the model's path (drift)
}

// Result of one behaviour.
type Result struct {
	ID      int          `json:"id"`
	Variant int          `json:"variant"`
	Status  string       `json:"status"` // "ok" | "mismatch" | "infra"
	Infra   string       `json:"infra,omitempty"`
	Steps   []StepResult `json:"steps,omitempty"`
	Shapes  []string     `json:"shapes,omitempty"` // section-height shapes seen
	Cross   bool         `json:"cross"`            // some read crossed a section boundary
	Gz0     bool         `json:"gz0"`              // all dirty gauges were zero at some observation after the first batch
	Partial int          `json:"partial"`          // partial compactions (splice point > 0) the implementation took
	Full    int          `json:"full"`             // full compactions
}

// Notifier is the (exported-method) merger notification API of a collection.
type Notifier interface {
	NotifyMerger(kind string, synchronous bool) error
}

// how long the driver waits for the implementation to reach a gate or emit an event
// (raised for the dimensions that move 16 MB keys / 256 MB values through every step)
var stepTimeout = 20 * time.Second

// Session replays one behaviour.
type Session struct {
	D                Dims
	C                *Concr
	sched            *Sched
	coll             moss.Collection
	store            *moss.Store
	app              *AppStore
	dir              string
	merge            moss.MergeOperator
	kept             []keptCopy // results of copying Gets (CopyCheck)
	snaps            map[int]moss.Snapshot
	onErr            int
	policyDiverged   bool // the implementation chose another merge level than the behaviour
	lastErr          string
	closeDone        chan error
	refs             []Content // expectations after each executed batch (TLC's, for prefix checks)
	refsBeforeReopen []Content
	heldStore        moss.Snapshot
	heldStoreExp     Content
	heldStoreOpen    bool
	prevH            []int   // section heights TLC expects after the previous step (-1: nil)
	roll             []*held // rolling handles (Dims.Rolling)
	openErr          string
	leaks            []Mismatch
	conformance      []Mismatch
	leftModel        string // the implementation legitimately left the behaviour (policy): go to the epilogue
	partial, full    int // compactions seen by earlier incarnations (before a reopen)
	life             string
	failWrites       int32
	flog             *FileLog
}

func NewSession(d Dims) *Session {
	s := &Session{D: d, snaps: map[int]moss.Snapshot{}, life: "open"}
	if d.ConcrProfile == "limits" || d.ConcrProfile == "limits28" {
		stepTimeout = 180 * time.Second
	}
	s.C = MakeConcr(d)
	s.merge = &moss.MergeOperatorStringAppend{Sep: s.C.Sep}
	if d.MergeAlias {
		s.merge = &aliasAppend{Sep: s.C.Sep}
	}
	return s
}

func (s *Session) collOptions() moss.CollectionOptions {
	co := moss.CollectionOptions{
		MergeOperator:          s.merge,
		DeferredSort:           s.D.DeferredSort,
		MinMergePercentage:     s.D.MinMergePct,
		MaxPreMergerBatches:    s.D.MaxPre,
		MergerIdleRunTimeoutMS: -1,
		CachePersisted:         s.D.CachePersisted,
		OnError:                func(e error) { s.onErr++; s.lastErr = fmt.Sprint(e) },
	}
	return co
}

func (s *Session) storeOptions() (moss.StoreOptions, moss.StorePersistOptions) {
	so := moss.StoreOptions{CollectionOptions: s.collOptions(), KeepFiles: s.D.KeepFiles,
		CompactionLevelMaxSegments: s.D.LevelMaxSegs, CompactionLevelMultiplier: s.D.LevelMult,
		CompactionPercentage:        s.D.CompactionPct,
		SegmentKeysIndexMinKeyBytes: s.D.IndexMinKeyBytes, SegmentKeysIndexMaxBytes: s.D.IndexMaxBytes}
	so.OpenFile = s.openFile
	po := moss.StorePersistOptions{NoSync: s.D.NoSync}
	switch s.D.Compaction {
	case "allow":
		po.CompactionConcern = moss.CompactionAllow
	case "force":
		po.CompactionConcern = moss.CompactionForce
	}
	return so, po
}

// Open creates the collection (and store) with all background
// goroutines parked at their gates.
func (s *Session) Open() error {
	Install()
	if s.D.Mode == "store" && s.dir == "" {
		dir, err := ioutil.TempDir(scratchBase(), "replay")
		if err != nil {
			return err
		}
		s.dir = dir
		if err := s.preload(); err != nil { // before any gate exists
			return fmt.Errorf("preload: %v", err)
		}
	}
	s.sched = NewSched()
	s.sched.Open("exec.beforeLock", "merger.beforeIngest", "close.beforeWait")
	switch s.D.Mode {
	case "mem", "app":
		co := s.collOptions()
		if s.D.Mode == "app" {
			if s.app == nil {
				s.app = NewAppStore()
			} else {
				// Reopen: the application's own store outlives the collection and is handed to the new
				// one (top-level collections only: NewCollection does not restore child collections)
				if len(s.D.Paths) > 1 {
					return fmt.Errorf("Reopen with an application lower level is only replayed for behaviours without child collections")
				}
				co.LowerLevelInit = s.app.Current()
			}
			co.LowerLevelUpdate = s.app.Update
		}
		c, err := moss.NewCollection(co)
		if err != nil {
			return err
		}
		s.sched.Bind(c, nil)
		s.coll = c
		if err := c.Start(); err != nil {
			return err
		}
	case "store":
		if s.dir == "" {
			dir, err := ioutil.TempDir(scratchBase(), "replay")
			if err != nil {
				return err
			}
			s.dir = dir
		}
		so, po := s.storeOptions()
		st, c, err := moss.OpenStoreCollection(s.dir, so, po)
		if err != nil {
			return fmt.Errorf("OpenStoreCollection: %v", err)
		}
		s.sched.Bind(c, st)
		s.coll, s.store = c, st
		// a store snapshot taken right after the open and held for the whole
		// life of this incarnation (C02/C15): it must keep its content
		if s.heldStore != nil {
			s.heldStore.Close()
		}
		s.closeRolling()
		s.heldStore, _ = st.Snapshot()
		s.heldStoreOpen = true
	default:
		return fmt.Errorf("unknown mode %q", s.D.Mode)
	}
	s.life = "open"
	return s.sched.AwaitParked("merger.loop", stepTimeout)
}

// leakCheck polls (file removal and unmapping may be asynchronous) until the
// process holds no descriptor and no mapping of the store directory and the
// directory lists at most one data file; what is left after the bound is a leak.
func (s *Session) leakCheck() (out []Mismatch) {
	if s.dir == "" {
		return nil
	}
	deadline := time.Now().Add(3 * time.Second)
	var fds, maps, files []string
	for {
		fds, maps, files = procRefs(s.dir)
		if len(fds) == 0 && len(maps) == 0 && (len(files) <= 1 || s.D.KeepFiles) {
			return nil
		}
		if time.Now().After(deadline) {
			break
		}
		time.Sleep(2 * time.Millisecond)
	}
	if len(fds) > 0 {
		out = append(out, Mismatch{What: "leak.fd", Got: fmt.Sprint(fds), Want: "no open descriptor of the store directory"})
	}
	if len(maps) > 0 {
		out = append(out, Mismatch{What: "leak.maps", Got: fmt.Sprint(maps), Want: "no mapping of the store directory"})
	}
	if len(files) > 1 && !s.D.KeepFiles {
		out = append(out, Mismatch{What: "leak.files", Got: fmt.Sprint(files), Want: "only the current data file"})
	}
	return
}

// procRefs lists the descriptors and mappings of this process that refer to
// files of dir, and the data files of dir.
func procRefs(dir string) (fds, maps, files []string) {
	if ents, err := ioutil.ReadDir("/proc/self/fd"); err == nil {
		for _, e := range ents {
			if t, err := os.Readlink("/proc/self/fd/" + e.Name()); err == nil && strings.HasPrefix(t, dir+"/") {
				fds = append(fds, strings.TrimPrefix(t, dir+"/"))
			}
		}
	}
	if b, err := ioutil.ReadFile("/proc/self/maps"); err == nil {
		seen := map[string]bool{}
		for _, line := range strings.Split(string(b), "\n") {
			if i := strings.Index(line, dir+"/"); i >= 0 {
				name := strings.TrimPrefix(line[i:], dir+"/")
				if !seen[name] {
					seen[name] = true
					maps = append(maps, name)
				}
			}
		}
	}
	if ents, err := ioutil.ReadDir(dir); err == nil {
		for _, e := range ents {
			if strings.HasPrefix(e.Name(), "data-") {
				files = append(files, e.Name())
			}
		}
	}
	return
}

// preload persists the initial content of the lower level (InitKeys of the
// specification) with a plain, ungated store session.
func (s *Session) preload() error {
	if len(s.D.Preload) == 0 && len(s.D.PreloadKids) == 0 {
		return nil
	}
	st, c, err := moss.OpenStoreCollection(s.dir, moss.StoreOptions{}, moss.StorePersistOptions{})
	if err != nil {
		return err
	}
	rounds := s.D.PreloadRounds
	if rounds < 1 {
		rounds = 1
	}
	for round := 1; round <= rounds; round++ {
		if err := s.preloadRound(c, uint64(round)); err != nil {
			return err
		}
	}
	if err := c.Close(); err != nil {
		return err
	}
	if err := st.Close(); err != nil {
		return err
	}
	s.heldStoreExp = emptyContent(s.D)
	root := s.heldStoreExp[""]
	for _, k := range s.D.Preload {
		root.M[k-1] = Val{P: true, V: []int{9}}
	}
	s.heldStoreExp[""] = root
	for _, q := range s.D.PreloadKids {
		n := s.heldStoreExp[q]
		n.Ex = true
		n.M[0] = Val{P: true, V: []int{9}}
		s.heldStoreExp[q] = n
	}
	return nil
}

// preloadRound executes the preload batch and waits until it is persisted (round-th round).
func (s *Session) preloadRound(c moss.Collection, round uint64) error {
	b, err := c.NewBatch(0, 0)
	if err != nil {
		return err
	}
	for _, k := range s.D.Preload {
		b.Set(s.C.Keys[k-1], s.C.Bytes(Val{P: true, V: []int{9}}))
	}
	kidBatch := map[string]moss.Batch{"": b}
	for _, q := range s.D.PreloadKids { // parents first
		par, name := "", q
		if i := strings.LastIndex(q, "/"); i >= 0 {
			par, name = q[:i], q[i+1:]
		}
		cb, err := kidBatch[par].NewChildCollectionBatch(s.C.Names[name], moss.BatchOptions{})
		if err != nil {
			return err
		}
		cb.Set(s.C.Keys[0], s.C.Bytes(Val{P: true, V: []int{9}}))
		kidBatch[q] = cb
	}
	if err := c.ExecuteBatch(b, moss.WriteOptions{}); err != nil {
		return err
	}
	b.Close()
	deadline := time.Now().Add(stepTimeout)
	for {
		cs, _ := c.Stats()
		if cs != nil && cs.TotPersisterLowerLevelUpdateEnd >= round && cs.CurDirtyOps == 0 && cs.CurDirtySegments == 0 {
			break
		}
		if time.Now().After(deadline) {
			return fmt.Errorf("timeout waiting for the preload to persist")
		}
		c.(Notifier).NotifyMerger("preload", false) // a batch without top-level operations does not wake the merger by itself
		time.Sleep(time.Millisecond)
	}
	return nil
}

func scratchBase() string {
	if d := os.Getenv("VERIF_SCRATCH"); d != "" {
		return d
	}
	return ""
}

// Teardown releases everything (best effort) and removes the directory.
func (s *Session) Teardown() {
	if s.sched != nil {
		s.sched.OpenAll()
	}
	for id, ss := range s.snaps {
		ss.Close()
		delete(s.snaps, id)
	}
	if s.heldStore != nil {
		s.heldStore.Close()
		s.heldStore = nil
	}
	s.closeRolling()
	if s.life != "closed" && s.coll != nil {
		done := make(chan struct{})
		if s.life == "closing" {
			go func() { <-s.closeDone; close(done) }()
		} else {
			go func() { s.coll.Close(); close(done) }()
		}
		select {
		case <-done:
		case <-time.After(5 * time.Second):
		}
		if s.store != nil {
			s.store.Close()
		}
	}
	if s.sched != nil {
		s.sched.Unbind()
	}
	if s.dir != "" {
		os.RemoveAll(s.dir)
	}
}

// sizes of a batch node (operations and key+value bytes), for Alloc-built batches
func (s *Session) nodeSize(node BNode) (ops, bytes int) {
	for i, op := range node.Ops {
		if op.O == "none" || op.O == "xk" || op.O == "xv" {
			continue
		}
		ops++
		bytes += len(s.C.Keys[i]) + len(s.C.Operand(op.V))
	}
	return
}

func (s *Session) buildBatch(b map[string]BNode) (moss.Batch, error) {
	ops, bytes := 0, 0
	if s.D.AllocBatches {
		ops, bytes = s.nodeSize(b[""])
	}
	root, err := s.coll.NewBatch(ops, bytes)
	if err != nil {
		return nil, err
	}
	var fill func(p string, batch moss.Batch) error
	fill = func(p string, batch moss.Batch) error {
		node := b[p]
		// operations the batch must reject (oversize key / value); with Alloc-built batches they
		// are issued between the Alloc calls and the AllocSet/Del/Merge of the next accepted one
		var rejected []Op
		reject := func() error {
			for _, r := range rejected {
				var e, want error
				if r.O == "xk" {
					e, want = batch.Set(OversizeKey(), s.C.Operand(r.V)), moss.ErrKeyTooLarge
				} else {
					e, want = batch.Set(s.C.Keys[0], OversizeVal()), moss.ErrValueTooLarge
				}
				if e != want {
					s.conformance = append(s.conformance, Mismatch{What: "batch.reject", Got: fmt.Sprint(e), Want: want.Error()})
				}
			}
			rejected = nil
			return nil
		}
		for j := range node.Ops {
			i := j
			if s.D.OpOrder == "desc" {
				i = len(node.Ops) - 1 - j
			}
			op := node.Ops[i]
			key := s.C.Keys[i]
			var err error
			if op.O == "xk" || op.O == "xv" {
				rejected = append(rejected, op)
				continue
			}
			alloc := s.D.AllocBatches && (!s.D.AllocMix || i%2 == 0)
			if !alloc && op.O != "none" {
				reject()
			}
			if alloc && op.O != "none" {
				// keys and values are written into memory owned by the batch, each from
				// its own Alloc call (an empty key or value is an Alloc(0))
				var kb, vb []byte
				if kb, err = batch.Alloc(len(key)); err != nil {
					return err
				}
				copy(kb, key)
				val := s.C.Operand(op.V)
				if op.O != "del" {
					if vb, err = batch.Alloc(len(val)); err != nil {
						return err
					}
					copy(vb, val)
				}
				reject()
				switch op.O {
				case "set":
					err = batch.AllocSet(kb, vb)
				case "del":
					err = batch.AllocDel(kb)
				case "mrg":
					err = batch.AllocMerge(kb, vb)
				}
				if err != nil {
					return err
				}
				continue
			}
			switch op.O {
			case "set":
				err = batch.Set(key, s.C.Operand(op.V))
			case "del":
				err = batch.Del(key)
			case "mrg":
				err = batch.Merge(key, s.C.Operand(op.V))
			}
			if err != nil {
				return err
			}
		}
		reject()
		for _, n := range childPaths(s.D.Paths, p) {
			q := joinPath(p, n)
			switch b[q].Kind {
			case "del":
				if err := batch.DelChildCollection(s.C.Names[n]); err != nil {
					return err
				}
			case "ops":
				bo := moss.BatchOptions{}
				if s.D.AllocBatches {
					bo.TotalOps, bo.TotalKeyValBytes = s.nodeSize(b[q])
				}
				cb, err := batch.NewChildCollectionBatch(s.C.Names[n], bo)
				if err != nil {
					return err
				}
				if err := fill(q, cb); err != nil {
					return err
				}
			}
		}
		return nil
	}
	if err := fill("", root); err != nil {
		return nil, err
	}
	return root, nil
}

// Do executes one step of a behaviour against the implementation.
func (s *Session) Do(st Step) error {
	sc := s.sched
	mark := sc.Mark()
	switch st.Act {
	case "ExecuteBatch":
		var b map[string]BNode
		if err := json.Unmarshal(st.Arg, &b); err != nil {
			return err
		}
		batch, err := s.buildBatch(b)
		if err != nil {
			return err
		}
		errc := make(chan error, 1)
		go func() { errc <- s.coll.ExecuteBatch(batch, moss.WriteOptions{}) }()
		select {
		case err := <-errc:
			if err != nil {
				return fmt.Errorf("ExecuteBatch: %v", err)
			}
		case <-time.After(stepTimeout):
			return fmt.Errorf("ExecuteBatch did not return")
		}
		batch.Close()
		s.refs = append(s.refs, st.Exp.Ref)
	case "MergerIngest":
		var a struct{ All, Poke bool }
		json.Unmarshal(st.Arg, &a)
		if a.Poke {
			kind := "poke"
			if a.All {
				kind = "mergeAll"
			}
			if err := s.coll.(Notifier).NotifyMerger(kind, false); err != nil {
				return err
			}
		}
		sc.Release("merger.loop")
		if _, err := sc.AwaitEvent(mark, stepTimeout, "merger.ingest"); err != nil {
			return err
		}
		return sc.AwaitParked("merger.beforeSwap", stepTimeout)
	case "MergerSwap":
		sc.Release("merger.beforeSwap")
		if _, err := sc.AwaitEvent(mark, stepTimeout, "merger.swap", "merger.skip"); err != nil {
			return err
		}
		if s.D.Mode == "mem" {
			return sc.AwaitParked("merger.loop", stepTimeout)
		}
		return sc.AwaitParked("merger.beforeHandoff", stepTimeout)
	case "MergerHandoff":
		sc.Release("merger.beforeHandoff")
		ev, err := sc.AwaitEvent(mark, stepTimeout, "merger.handoff", "merger.handoffskip")
		if err != nil {
			return err
		}
		if err := sc.AwaitParked("merger.loop", stepTimeout); err != nil {
			return err
		}
		got := ev.Info.Point == "merger.handoff"
		var a struct {
			Did *bool `json:"did"`
		}
		json.Unmarshal(st.Arg, &a)
		if a.Did != nil {
			// MossColl!MergerHandoff: the stack is handed to the persister only into an empty slot
			want := *a.Did
			if got != want {
				s.conformance = append(s.conformance, Mismatch{What: "conformance.handoff",
					Got:  fmt.Sprintf("%s (top/mid/base/clean before the step: %v)", ev.Info.Point, s.prevH),
					Want: map[bool]string{true: "merger.handoff", false: "merger.handoffskip: stackDirtyBase is in use by the persister"}[want]})
				return nil // the persister is wherever the earlier steps left it
			}
		}
		if got && s.life == "open" {
			return sc.AwaitParked("persister.beforeUpdate", stepTimeout)
		}
	case "PersisterUpdate":
		var a struct{ Ok bool }
		json.Unmarshal(st.Arg, &a)
		if err := sc.AwaitParked("persister.beforeUpdate", stepTimeout); err != nil {
			return err
		}
		if a.Ok {
			sc.Release("persister.beforeUpdate")
			deadline := time.Now().Add(stepTimeout)
			for {
				if err := sc.AwaitParked("persister.beforeSwap", 2*time.Millisecond); err == nil {
					return nil
				}
				if _, err := sc.AwaitEvent(mark, time.Millisecond, "persister.error"); err == nil {
					// LowerLevelUpdate failed although no failure was injected: the implementation does
					// not follow MossColl!PersisterUpdate (reported; the persister retries the same stack)
					s.conformance = append(s.conformance, Mismatch{What: "conformance.persist",
						Got: "LowerLevelUpdate failed: " + s.lastErr, Want: "the persistence round succeeds"})
					return sc.AwaitParked("persister.beforeUpdate", stepTimeout)
				}
				if time.Now().After(deadline) {
					return sc.AwaitParked("persister.beforeSwap", time.Millisecond)
				}
			}
		}
		s.injectUpdateFailure()
		sc.Release("persister.beforeUpdate")
		if _, err := sc.AwaitEvent(mark, stepTimeout, "persister.error"); err != nil {
			return err
		}
		// MossColl!PersisterFail: nothing changes, the persister offers the same stack again.  A persister
		// that goes back to waiting for a stack instead has given the failed one away: a conformance
		// difference that the checks report (C13, C20), not a dead driver.
		deadline := time.Now().Add(stepTimeout)
		waiting := 0
		for {
			if err := sc.AwaitParked("persister.beforeUpdate", 5*time.Millisecond); err == nil {
				return nil
			}
			if cs, err := s.coll.Stats(); err == nil && cs.TotPersisterWaitBeg > cs.TotPersisterWaitEnd {
				waiting++
			} else {
				waiting = 0
			}
			if waiting >= 20 {
				// how the mutations are offered again is policy (R2): the driver stops following the behaviour
				// here, and the epilogue -- every gate open, idle rounds, everything read again against this
				// step's expectation -- decides whether anything was lost
				s.leftModel = "after the failed LowerLevelUpdate the persister waits for a new stack instead of offering the same one again"
				return nil
			}
			if time.Now().After(deadline) {
				return sc.AwaitParked("persister.beforeUpdate", time.Millisecond)
			}
		}
	case "PersisterSwap":
		sc.Release("persister.beforeSwap")
		deadline := time.Now().Add(stepTimeout)
		for {
			if _, err := sc.AwaitEvent(mark, 2*time.Millisecond, "persister.swap"); err == nil {
				return nil
			}
			if cs, err := s.coll.Stats(); err == nil && cs.TotPersisterEnd > 0 {
				// the persister goroutine left without installing the lower level snapshot it
				// was given: a conformance difference that the checks report (C04/C15), not
				// an infrastructure problem
				s.conformance = append(s.conformance, Mismatch{What: "persister.exit-without-swap",
					Got: "the persister exited after a successful LowerLevelUpdate without the swap", Want: "persister.swap"})
				return nil
			}
			if time.Now().After(deadline) {
				_, err := sc.AwaitEvent(mark, time.Millisecond, "persister.swap")
				return err
			}
		}
	case "TakeSnapshot":
		var a struct{ Id int }
		json.Unmarshal(st.Arg, &a)
		ss, err := s.coll.Snapshot()
		if err != nil {
			return fmt.Errorf("Snapshot: %v", err)
		}
		s.snaps[a.Id] = ss
	case "CloseSnapshot":
		var a struct{ Id int }
		json.Unmarshal(st.Arg, &a)
		if ss := s.snaps[a.Id]; ss != nil {
			ss.Close()
			delete(s.snaps, a.Id)
		}
	case "CloseBegin":
		s.closeDone = make(chan error, 1)
		go func() { s.closeDone <- s.coll.Close() }()
		if _, err := sc.AwaitEvent(mark, stepTimeout, "coll.close.begin"); err != nil {
			return err
		}
		s.life = "closing"
	case "MergerExit":
		// With the stop channel closed and a ping still queued (the persister's
		// "from-persister" notification), Go's select in mergerWaitForWork may pick
		// either: the merger then runs one more idle cycle before it exits.  That
		// choice is the implementation's (nothing observable depends on it while
		// closing), so the driver lets such cycles run through their gates.
		for i := 0; i < 16; i++ {
			sc.Release("merger.loop")
			deadline := time.Now().Add(stepTimeout)
			for {
				if cs, err := s.coll.Stats(); err == nil && cs.TotMergerEnd > 0 {
					return nil
				}
				if sc.AwaitParked("merger.beforeSwap", 200*time.Microsecond) == nil {
					break
				}
				if time.Now().After(deadline) {
					return s.pollStat(func(cs *moss.CollectionStats) bool { return cs.TotMergerEnd > 0 })
				}
			}
			sc.Release("merger.beforeSwap")
			if s.D.Mode != "mem" {
				if err := sc.AwaitParked("merger.beforeHandoff", stepTimeout); err != nil {
					return err
				}
				sc.Release("merger.beforeHandoff")
			}
			if err := sc.AwaitParked("merger.loop", stepTimeout); err != nil {
				return err
			}
		}
		return fmt.Errorf("merger keeps cycling instead of exiting")
	case "PersisterExit":
		if cs, err := s.coll.Stats(); err == nil && cs.TotPersisterEnd > 0 {
			return nil // already gone (see PersisterSwap)
		}
		if s.D.Mode != "mem" {
			if err := sc.AwaitParked("persister.beforeUpdate", stepTimeout); err != nil {
				return err
			}
			sc.Release("persister.beforeUpdate")
		}
		return s.pollStat(func(cs *moss.CollectionStats) bool { return cs.TotPersisterEnd > 0 })
	case "CloseEnd":
		select {
		case err := <-s.closeDone:
			if err != nil {
				return fmt.Errorf("Close: %v", err)
			}
		case <-time.After(stepTimeout):
			return fmt.Errorf("Close did not return")
		}
		if s.store != nil {
			if err := s.store.Close(); err != nil {
				return fmt.Errorf("Store.Close: %v", err)
			}
		}
		s.life = "closed"
		sc.Unbind()
		if s.D.LeakCheck && len(s.snaps) == 0 {
			if s.heldStore != nil {
				s.heldStore.Close()
				s.heldStore = nil
			}
			s.closeRolling()
			s.leaks = s.leakCheck()
		}
	case "Reopen":
		if s.sched != nil {
			p, f := countCompactions(s.sched)
			s.partial += p
			s.full += f
		}
		s.coll, s.store = nil, nil
		if err := s.Open(); err != nil {
			if strings.HasPrefix(err.Error(), "OpenStoreCollection:") {
				s.openErr = err.Error() // C04: reopening must succeed; reported by Observe
				return nil
			}
			return err
		}
		s.refsBeforeReopen = s.refs
		if st.Exp.Nb < len(s.refs) {
			s.refs = s.refs[:st.Exp.Nb]
		}
	default:
		return fmt.Errorf("unknown action %q", st.Act)
	}
	return nil
}

func (s *Session) pollStat(pred func(*moss.CollectionStats) bool) error {
	deadline := time.Now().Add(stepTimeout)
	for time.Now().Before(deadline) {
		cs, err := s.coll.Stats()
		if err == nil && pred(cs) {
			return nil
		}
		time.Sleep(200 * time.Microsecond)
	}
	cs, _ := s.coll.Stats()
	return fmt.Errorf("timeout polling collection stats (%s; mergerEnd=%d persisterEnd=%d closeBeg=%d mergerLoop=%d waitIncomingBeg=%d waitIncomingStop=%d)", s.sched.describeLocked(),
		cs.TotMergerEnd, cs.TotPersisterEnd, cs.TotCloseBeg, cs.TotMergerLoop, cs.TotMergerWaitIncomingBeg, cs.TotMergerWaitIncomingStop)
}

// Observe reads back everything observable and compares with the
// expectation of the step.
func (s *Session) Observe(idx int, st Step, full bool) StepResult {
	r := StepResult{Step: idx, Act: st.Act}
	exp := st.Exp
	if len(s.conformance) > 0 {
		r.Mismatches = append(r.Mismatches, s.conformance...)
		s.conformance = nil
	}
	if len(s.leaks) > 0 {
		r.Mismatches = append(r.Mismatches, s.leaks...)
		s.leaks = nil
	}
	if s.openErr != "" {
		r.Mismatches = append(r.Mismatches, Mismatch{What: "reopen.open", Got: s.openErr, Want: "reopen succeeds"})
		r.Abort = true
		return r
	}
	if s.heldStore != nil {
		if s.heldStoreOpen { // first observation after the open: this is what the store held then
			s.heldStoreOpen = false
			if st.Act == "Reopen" {
				s.heldStoreExp = exp.St
			}
		}
		want := s.heldStoreExp
		if want == nil {
			want = emptyContent(s.D)
		}
		r.Mismatches = append(r.Mismatches, CheckSnapshot(s.heldStore, s.C, want, s.D.Paths, "heldstore")...)
	}
	s.rolling(st, exp, &r)
	// open snapshots (C02): always re-read
	for id, ss := range s.snaps {
		if id-1 < len(exp.Snaps) && exp.Snaps[id-1].Open {
			r.Mismatches = append(r.Mismatches,
				CheckSnapshot(ss, s.C, exp.Snaps[id-1].C, s.D.Paths, fmt.Sprintf("heldsnap%d", id))...)
		}
	}
	if !full {
		return r
	}
	if s.life == "open" {
		cs, err := s.coll.Stats()
		if err == nil {
			r.Heights = []int{int(cs.CurDirtyTopSegments), int(cs.CurDirtyMidSegments), int(cs.CurDirtyBaseSegments), int(cs.CurCleanSegments)}
			// The merge level is policy (a parameter of MossColl, not compared with the code's
			// choice).  Once the implementation's section heights differ from the ones of the
			// model's choice, what the in-memory sections alone hold (MemView) is no longer
			// predicted by the behaviour; everything else (full reads) does not depend on it.
			if st.Act == "Reopen" {
				s.policyDiverged = false
			}
			for i, h := range r.Heights {
				w := 0
				if i < len(exp.H) && exp.H[i] > 0 {
					w = exp.H[i]
				}
				if w != h {
					s.policyDiverged = true
				}
			}
		}
		// C10 first (Collection.Get does not touch the cached snapshot)
		for i, kb := range s.C.Keys {
			want := s.C.Bytes(exp.Ref[""].M[i])
			for _, nc := range []bool{false, true} {
				got, err := s.coll.Get(kb, moss.ReadOptions{NoCopyValue: nc})
				if err != nil {
					r.Mismatches = append(r.Mismatches, Mismatch{What: "coll.get.err", Key: i + 1, Got: err.Error(), Want: show(want)})
				} else if !nc && sameBytes(got, want) {
					s.keep("coll.get", i+1, got)
				}
				if err == nil && !sameBytes(got, want) {
					pred := ""
					if i < len(exp.Dg) {
						pred = show(s.C.Bytes(exp.Dg[i]))
					}
					r.Mismatches = append(r.Mismatches, Mismatch{What: "coll.get", Key: i + 1, Got: show(got), Want: show(want) + " pred=" + pred})
				}
			}
		}
		r.Mismatches = append(r.Mismatches, s.checkSkipLL(exp)...)
		ss, err := s.coll.Snapshot()
		if err != nil {
			r.Mismatches = append(r.Mismatches, Mismatch{What: "snapshot.err", Got: err.Error()})
		} else if st.Act == "Reopen" {
			// C04: exactly the reference when persistence had caught up, else the reference after some prefix
			mm := CheckSnapshot(ss, s.C, exp.Ref, s.D.Paths, "reopen")
			if len(mm) > 0 {
				found := -1
				for j := len(s.refsBeforeReopen); j >= 0; j-- {
					c := emptyContent(s.D)
					if j > 0 {
						c = s.refsBeforeReopen[j-1]
					}
					if len(CheckSnapshot(ss, s.C, c, s.D.Paths, "reopen")) == 0 {
						found = j
						break
					}
				}
				if found >= 0 && exp.Nb < len(s.refsBeforeReopen) {
					r.Drift = append(r.Drift, fmt.Sprintf("reopen yields prefix %d, model predicted %d", found, exp.Nb))
					r.Abort = true
				} else {
					r.Mismatches = append(r.Mismatches, mm...)
				}
			}
			ss.Close()
		} else {
			r.Mismatches = append(r.Mismatches, CheckSnapshot(ss, s.C, exp.Ref, s.D.Paths, "snapshot")...)
			ss.Close()
		}
		// C20: zero gauges mean everything is in the lower level
		if cs != nil && s.D.Mode != "mem" && cs.CurDirtyOps == 0 && cs.CurDirtyBytes == 0 && cs.CurDirtySegments == 0 {
			gm := s.checkLower(exp.Ref, "gauges0.lower")
			if exp.So {
				for i := range gm {
					gm[i].Note = "structure-only"
				}
			}
			r.Mismatches = append(r.Mismatches, gm...)
			r.Gz0 = len(s.refs) > 0
		}
		if cs != nil && exp.Gz != (cs.CurDirtyOps == 0 && cs.CurDirtyBytes == 0 && cs.CurDirtySegments == 0) {
			r.Drift = append(r.Drift, fmt.Sprintf("gauges zero: model %v impl ops=%d segs=%d", exp.Gz, cs.CurDirtyOps, cs.CurDirtySegments))
		}
	}
	// what is on disk after a completed round is what a clean shutdown now would leave behind (Close
	// writes nothing): a copy of the directory must open and hold exactly the model's store content
	if s.D.DiskCheck && s.D.Mode == "store" && s.life == "open" && st.Act == "PersisterSwap" {
		// the content the live store holds: the model's, or (merge and compaction policy are not
		// modelled, see the `lower` check below) the reference after another prefix of the batches
		var live Content
		if len(s.checkLower(exp.St, "lower")) == 0 {
			live = exp.St
		} else {
			for j := len(s.refs); j >= 0 && live == nil; j-- {
				c := emptyContent(s.D)
				if j > 0 {
					c = s.refs[j-1]
				}
				if len(s.checkLower(c, "lower")) == 0 {
					live = c
				}
			}
		}
		if live != nil { // otherwise the `lower` check reports the live store itself
			r.Mismatches = append(r.Mismatches, s.diskCopyCheck(live)...)
		}
	}
	// lower level content must be the reference after a prefix of the batches
	if s.D.Mode != "mem" && s.life != "closed" {
		mm := s.checkLower(exp.St, "lower")
		if len(mm) > 0 {
			// some other prefix?
			found := -1
			for j := len(s.refs); j >= 0; j-- {
				var c Content
				if j == 0 {
					c = emptyContent(s.D)
				} else {
					c = s.refs[j-1]
				}
				if len(s.checkLower(c, "lower")) == 0 {
					found = j
					break
				}
			}
			if found >= 0 {
				r.Drift = append(r.Drift, fmt.Sprintf("lower level holds prefix %d, model predicted %d", found, exp.Up))
			} else {
				r.Mismatches = append(r.Mismatches, mm...)
			}
		}
	}
	return r
}

// diskCopyCheck opens a copy of the store directory (read-only, so that no background goroutine
// and no cleanup runs) and compares its content with want.
func (s *Session) diskCopyCheck(want Content) (out []Mismatch) {
	dir, err := ioutil.TempDir(scratchBase(), "diskcopy")
	if err != nil {
		return nil
	}
	defer os.RemoveAll(dir)
	fis, _ := ioutil.ReadDir(s.dir)
	for _, fi := range fis {
		if b, err := ioutil.ReadFile(filepath.Join(s.dir, fi.Name())); err == nil {
			ioutil.WriteFile(filepath.Join(dir, fi.Name()), b, 0600)
		}
	}
	so, po := s.storeOptions()
	so.OpenFile = nil
	so.CollectionOptions.ReadOnly = true
	so.CollectionOptions.OnError = nil
	e := safely(func() error {
		st, c, err := moss.OpenStoreCollection(dir, so, po)
		if err != nil {
			out = append(out, Mismatch{What: "reopencopy.open", Got: err.Error(), Want: "the directory as it is after a completed persistence round opens"})
			return nil
		}
		defer st.Close()
		defer c.Close()
		ss, err := c.Snapshot()
		if err != nil {
			return err
		}
		defer ss.Close()
		out = append(out, CheckSnapshot(ss, s.C, want, s.D.Paths, "reopencopy")...)
		return nil
	})
	if e != nil {
		out = append(out, Mismatch{What: "reopencopy.fault", Got: e.Error()})
	}
	return
}

// held is one rolling handle: a snapshot with the content TLC gave when it was taken, and an
// iterator on it that has already been re-positioned backwards (the restart path of SeekTo).
type held struct {
	ss   moss.Snapshot
	exp  Content
	it   moss.Iterator
	what string
}

func (h *held) close() {
	if h == nil {
		return
	}
	if h.it != nil {
		h.it.Close()
		h.it = nil
	}
	if h.ss != nil {
		h.ss.Close()
		h.ss = nil
	}
}

func (s *Session) closeRolling() {
	for _, h := range s.roll {
		h.close()
	}
	s.roll = nil
}

// checkHeldIter re-positions the held iterator at the first key (a backward seek once it has
// been read) and reads it to the end: exactly the top-level entries of the content it was taken on.
func (s *Session) checkHeldIter(h *held) (out []Mismatch) {
	if h.it == nil {
		return nil
	}
	var wantK, wantV [][]byte
	for i, v := range h.exp[""].M {
		if v.P {
			wantK = append(wantK, s.C.Keys[i])
			wantV = append(wantV, s.C.Bytes(v))
		}
	}
	e := safely(func() error {
		var gotK, gotV [][]byte
		if len(wantK) > 0 {
			if err := h.it.SeekTo(wantK[0]); err != nil && err != moss.ErrIteratorDone {
				return err
			}
		}
		for n := 0; n < 1000; n++ {
			k, v, err := h.it.Current()
			if err != nil {
				break
			}
			gotK, gotV = append(gotK, append([]byte{}, k...)), append(gotV, append([]byte{}, v...))
			if h.it.Next() != nil {
				break
			}
		}
		if showKV(gotK, gotV) != showKV(wantK, wantV) {
			out = append(out, Mismatch{What: h.what + ".helditer", Got: showKV(gotK, gotV), Want: showKV(wantK, wantV)})
		}
		return nil
	})
	if e != nil {
		out = append(out, Mismatch{What: h.what + ".helditer.fault", Got: e.Error(), Want: "an open iterator keeps its data readable"})
	}
	return
}

func (s *Session) takeHeld(ss moss.Snapshot, exp Content, what string) *held {
	if ss == nil {
		return nil
	}
	h := &held{ss: ss, exp: exp, what: what}
	safely(func() error {
		it, err := ss.StartIterator(nil, nil, moss.IteratorOptions{})
		if err == nil && it != nil {
			h.it = it
		}
		return nil
	})
	return h
}

// rolling (C02/C15): after every persistence round a store snapshot is taken, and whenever
// nothing is dirty a collection snapshot (its iterators are the lower level's own); each is
// held across the next TWO rounds -- and across Close -- together with an open iterator, and
// all of them are fully re-read (backward seeks included) after every step against the content
// TLC gave when they were taken.  When a handle is retired its snapshot is closed first and
// the iterator read once more: an open iterator alone must keep its data alive.
func (s *Session) rolling(st Step, exp Expect, r *StepResult) {
	if !s.D.Rolling {
		return
	}
	for _, h := range s.roll {
		r.Mismatches = append(r.Mismatches, CheckSnapshot(h.ss, s.C, h.exp, s.D.Paths, h.what)...)
		r.Mismatches = append(r.Mismatches, s.checkHeldIter(h)...)
	}
	if s.life != "open" || s.coll == nil {
		return
	}
	swap := st.Act == "PersisterSwap"
	count := func(what string) (n int) {
		for _, h := range s.roll {
			if h.what == what {
				n++
			}
		}
		return
	}
	retire := func(what string) { // the oldest handle of that kind
		for i, h := range s.roll {
			if h.what == what {
				if h.ss != nil {
					h.ss.Close()
					h.ss = nil
				}
				mm := s.checkHeldIter(h)
				for k := range mm {
					mm[k].What += ".aftersnapclose"
				}
				r.Mismatches = append(r.Mismatches, mm...)
				h.close()
				s.roll = append(s.roll[:i:i], s.roll[i+1:]...)
				return
			}
		}
	}
	if s.store != nil && (count("heldstore.roll") == 0 || swap) {
		if count("heldstore.roll") >= 2 {
			retire("heldstore.roll")
		}
		ss, _ := s.store.Snapshot()
		if h := s.takeHeld(ss, exp.St, "heldstore.roll"); h != nil {
			s.roll = append(s.roll, h)
		}
	}
	clean := len(exp.H) == 4 && exp.H[0] <= 0 && exp.H[1] <= 0 && exp.H[2] <= 0
	if s.D.Mode != "mem" && clean && (count("heldsnap.roll") == 0 || swap) {
		if count("heldsnap.roll") >= 2 {
			retire("heldsnap.roll")
		}
		ss, _ := s.coll.Snapshot()
		if h := s.takeHeld(ss, exp.Ref, "heldsnap.roll"); h != nil {
			s.roll = append(s.roll, h)
		}
	}
}

// epilogue: idle merger cycles and persistence rounds are stuttering steps of MossColl as far as
// anything readable is concerned (MergerIngest with a ping ... PersisterSwap of an empty stack
// leave View = ref).  After the last step of a behaviour that leaves the collection open, every
// gate is opened, three synchronous merger notifications are sent with the persister drained
// after each, and everything is read again against the expectation of the last step.
func (s *Session) epilogue(idx int, last Step) (r StepResult) {
	r = StepResult{Step: idx, Act: "Epilogue"}
	s.sched.OpenAll()
	for i := 0; i < 3; i++ {
		done := make(chan error, 1)
		go func() { done <- s.coll.(Notifier).NotifyMerger("mergeAll", true) }()
		select {
		case <-done:
		case <-time.After(stepTimeout):
			return
		}
		deadline := time.Now().Add(stepTimeout)
		stable := 0
		for stable < 3 && time.Now().Before(deadline) {
			cs, err := s.coll.Stats()
			if err != nil {
				return
			}
			if cs.TotPersisterLowerLevelUpdateBeg == cs.TotPersisterLowerLevelUpdateEnd+cs.TotPersisterLowerLevelUpdateErr && cs.CurDirtyBaseSegments == 0 && cs.CurDirtyTopSegments == 0 {
				stable++
			} else {
				stable = 0
			}
			time.Sleep(2 * time.Millisecond)
		}
	}
	exp := last.Exp
	for i, kb := range s.C.Keys {
		want := s.C.Bytes(exp.Ref[""].M[i])
		got, err := s.coll.Get(kb, moss.ReadOptions{})
		if err != nil {
			r.Mismatches = append(r.Mismatches, Mismatch{What: "coll.get.err", Key: i + 1, Got: err.Error(), Want: show(want)})
		} else if !sameBytes(got, want) {
			r.Mismatches = append(r.Mismatches, Mismatch{What: "coll.get", Key: i + 1, Got: show(got), Want: show(want) + " (after idle rounds)"})
		}
	}
	if ss, err := s.coll.Snapshot(); err == nil {
		r.Mismatches = append(r.Mismatches, CheckSnapshot(ss, s.C, exp.Ref, s.D.Paths, "snapshot")...)
		ss.Close()
	}
	for id, ss := range s.snaps {
		if id-1 < len(exp.Snaps) && exp.Snaps[id-1].Open {
			r.Mismatches = append(r.Mismatches, CheckSnapshot(ss, s.C, exp.Snaps[id-1].C, s.D.Paths, fmt.Sprintf("heldsnap%d", id))...)
		}
	}
	for _, h := range s.roll {
		r.Mismatches = append(r.Mismatches, CheckSnapshot(h.ss, s.C, h.exp, s.D.Paths, h.what)...)
		r.Mismatches = append(r.Mismatches, s.checkHeldIter(h)...)
	}
	// the rolling handles are retired the way rolling() retires them: snapshot first, then the iterator is
	// read once more -- after the idle rounds (which, under CompactionAllow, compact into a new file) the
	// open iterator is the only thing that keeps its file mapped
	for _, h := range s.roll {
		if h.ss != nil {
			h.ss.Close()
			h.ss = nil
		}
		mm := s.checkHeldIter(h)
		for k := range mm {
			mm[k].What += ".aftersnapclose"
		}
		r.Mismatches = append(r.Mismatches, mm...)
		h.close()
	}
	s.roll = nil
	// C20 after the idle rounds: zero gauges mean everything is in the lower level
	if cs, err := s.coll.Stats(); err == nil && s.D.Mode != "mem" && cs.CurDirtyOps == 0 && cs.CurDirtyBytes == 0 && cs.CurDirtySegments == 0 {
		gm := s.checkLower(exp.Ref, "gauges0.lower")
		// (the model's prediction of what only carries structure describes the last step, not the state after
		// the idle rounds: here a difference that concerns nothing but the existence of child collections is
		// the open finding C20-structure-only-batch; any difference in a key is not)
		structural := true
		for _, m := range gm {
			if !strings.HasSuffix(m.What, ".names") && !strings.HasSuffix(m.What, ".child") {
				structural = false
			}
		}
		for i := range gm {
			if exp.So || structural {
				gm[i].Note = "structure-only"
			}
		}
		r.Mismatches = append(r.Mismatches, gm...)
	}
	// drained: the lower level holds the reference after some prefix of the batches (all of them, unless
	// the last ones only carry structure: open finding)
	if s.D.Mode != "mem" {
		ok := false
		for j := len(s.refs); j >= 0 && !ok; j-- {
			c := emptyContent(s.D)
			if j > 0 {
				c = s.refs[j-1]
			}
			ok = len(s.checkLower(c, "lower")) == 0
		}
		if !ok {
			r.Mismatches = append(r.Mismatches, s.checkLower(exp.Ref, "lower")...)
		}
	}
	return
}

// checkSkipLL: with SkipLowerLevel (and with and without NoCopyValue) Collection.Get,
// Get on a fresh snapshot and the entry produced by iterating that snapshot must agree
// with each other (C10: every read option combination).
func (s *Session) checkSkipLL(exp Expect) (out []Mismatch) {
	ss, err := s.coll.Snapshot()
	if err != nil {
		return nil
	}
	defer ss.Close()
	iterVals := map[string][]byte{}
	it, err := ss.StartIterator(nil, nil, moss.IteratorOptions{SkipLowerLevel: true})
	if err == nil && it != nil {
		for n := 0; n < 10000; n++ {
			k, v, e := it.Current()
			if e != nil {
				break
			}
			if v == nil {
				v = []byte{}
			}
			iterVals[string(k)] = append([]byte{}, v...)
			if it.Next() != nil {
				break
			}
		}
		it.Close()
	}
	for i, kb := range s.C.Keys {
		for _, nc := range []bool{false, true} {
			ro := moss.ReadOptions{SkipLowerLevel: true, NoCopyValue: nc}
			a, e1 := s.coll.Get(kb, ro)
			b, e2 := ss.Get(kb, ro)
			if e1 != nil || e2 != nil {
				out = append(out, Mismatch{What: "coll.get.skipll.err", Key: i + 1, Got: fmt.Sprint(e1, e2)})
				continue
			}
			// MossColl!MemView: what the in-memory sections alone hold for the key
			if i < len(exp.Mv) && !s.policyDiverged {
				if want := s.C.Bytes(exp.Mv[i]); !sameBytes(a, want) {
					out = append(out, Mismatch{What: "coll.get.skipll.model", Key: i + 1,
						Got: fmt.Sprintf("Collection.Get=%s (SkipLowerLevel, NoCopyValue=%v)", show(a), nc), Want: show(want)})
				}
			}
			c, inIter := iterVals[string(kb)]
			if !inIter {
				c = nil
			}
			if !sameBytes(a, b) || (b == nil) != (c == nil) || (b != nil && string(b) != string(c)) {
				out = append(out, Mismatch{What: "coll.get.skipll", Key: i + 1,
					Got:  fmt.Sprintf("Collection.Get=%s Snapshot.Get=%s iteration=%s (SkipLowerLevel, NoCopyValue=%v)", show(a), show(b), show(c), nc),
					Want: "the three read paths agree"})
			}
		}
	}
	return
}

func emptyContent(d Dims) Content {
	c := Content{}
	for _, p := range d.Paths {
		c[p] = CNode{Ex: p == "", M: make([]Val, d.NKeys)}
	}
	return c
}

// checkLower compares the lower level's own content with want.
func (s *Session) checkLower(want Content, what string) []Mismatch {
	switch s.D.Mode {
	case "app":
		return CheckSnapshot(s.app.Current(), s.C, want, s.D.Paths, what)
	case "store":
		if s.store == nil {
			return nil
		}
		ss, err := s.store.Snapshot()
		if err != nil || ss == nil {
			return []Mismatch{{What: what + ".err", Got: fmt.Sprint(err)}}
		}
		defer ss.Close()
		return CheckSnapshot(ss, s.C, want, s.D.Paths, what)
	}
	return nil
}

func (s *Session) injectUpdateFailure() {
	switch s.D.Mode {
	case "app":
		s.app.mu.Lock()
		s.app.FailNext = 1
		s.app.mu.Unlock()
	case "store":
		s.armWriteFailure()
	}
}

// finalLeakCheck closes whatever the behaviour left open, in the order chosen
// by the dimensions, and then checks that nothing of the directory is held.
func (s *Session) finalLeakCheck() []Mismatch {
	s.closeEverything()
	return s.leakCheck()
}

// closeEverything closes whatever the behaviour left open (idempotent).
func (s *Session) closeEverything() {
	closeSnaps := func() {
		for id, ss := range s.snaps {
			ss.Close()
			delete(s.snaps, id)
		}
		if s.heldStore != nil {
			s.heldStore.Close()
			s.heldStore = nil
		}
		s.closeRolling()
	}
	closeColl := func() {
		if s.coll == nil || s.life == "closed" {
			return
		}
		if s.sched != nil {
			s.sched.OpenAll()
		}
		done := make(chan struct{})
		go func() {
			if s.life == "closing" {
				<-s.closeDone
			} else {
				s.coll.Close()
			}
			close(done)
		}()
		select {
		case <-done:
		case <-time.After(stepTimeout):
		}
		if s.store != nil {
			s.store.Close()
		}
		s.life = "closed"
	}
	if s.D.CloseOrder == "storeFirst" {
		closeColl()
		closeSnaps()
	} else {
		closeSnaps()
		closeColl()
	}
}

// keptCopy is a value a copying Get returned (C10: it must stay intact after the
// snapshot, the collection and the store are closed).
type keptCopy struct {
	what string
	key  int
	b    []byte
	want string
}

func (s *Session) keep(what string, key int, b []byte) {
	if !s.D.CopyCheck || len(b) == 0 || len(b) > 1<<16 || len(s.kept) >= 2048 {
		return
	}
	s.kept = append(s.kept, keptCopy{what, key, b, string(b)})
}

// storeMappings lists the address ranges of this process that map files of the store directory.
func storeMappings(dir string) (out [][2]uintptr) {
	b, err := ioutil.ReadFile("/proc/self/maps")
	if err != nil || dir == "" {
		return
	}
	for _, line := range strings.Split(string(b), "\n") {
		if !strings.Contains(line, dir+"/") {
			continue
		}
		var lo, hi uintptr
		if _, err := fmt.Sscanf(line, "%x-%x", &lo, &hi); err == nil {
			out = append(out, [2]uintptr{lo, hi})
		}
	}
	return
}

// checkKeptMapped: a value returned by a copying Get must not lie inside a mapping of a
// data file (it would die with the mapping).  Called while everything is still open.
func (s *Session) checkKeptMapped() (out []Mismatch) {
	if len(s.kept) == 0 {
		return
	}
	maps := storeMappings(s.dir)
	seen := map[string]bool{}
	for _, k := range s.kept {
		a := uintptr(unsafe.Pointer(&k.b[0]))
		for _, m := range maps {
			if a >= m[0] && a < m[1] && !seen[k.what+fmt.Sprint(k.key)] {
				seen[k.what+fmt.Sprint(k.key)] = true
				out = append(out, Mismatch{What: "coll.get.copy.mapped", Key: k.key, Got: fmt.Sprintf("%s returned a slice inside a mapping of the data file (%s)", k.what, show([]byte(k.want))), Want: "a private copy"})
			}
		}
	}
	return
}

// checkKeptAfterClose: once everything is closed every kept value still reads as it did.
func (s *Session) checkKeptAfterClose() (out []Mismatch) {
	seen := map[string]bool{}
	for _, k := range s.kept {
		k := k
		var got string
		err := safely(func() error { got = string(k.b); return nil })
		id := k.what + fmt.Sprint(k.key)
		if seen[id] {
			continue
		}
		if err != nil {
			seen[id] = true
			out = append(out, Mismatch{What: "coll.get.copy.afterclose", Key: k.key, Got: fmt.Sprintf("%s: reading the value after closing everything: %v", k.what, err), Want: show([]byte(k.want))})
		} else if got != k.want {
			seen[id] = true
			out = append(out, Mismatch{What: "coll.get.copy.afterclose", Key: k.key, Got: fmt.Sprintf("%s: %s", k.what, show([]byte(got))), Want: show([]byte(k.want))})
		}
	}
	return
}

// aliasAppend is the string-append merge operator, except that it hands back
// existingValue itself (no copy) when the operands change nothing -- which a merge
// operator may do (a maximum, a saturating counter, set-if-absent).
type aliasAppend struct{ Sep string }

func (mo *aliasAppend) Name() string { return "aliasAppend" }
func (mo *aliasAppend) FullMerge(key, existingValue []byte, operands [][]byte) ([]byte, bool) {
	same := existingValue != nil && mo.Sep == ""
	for _, o := range operands {
		if len(o) > 0 {
			same = false
		}
	}
	if same {
		return existingValue, true
	}
	x := string(existingValue)
	for _, o := range operands {
		x = x + mo.Sep + string(o)
	}
	return []byte(x), true
}
func (mo *aliasAppend) PartialMerge(key, l, r []byte) ([]byte, bool) {
	return []byte(string(l) + mo.Sep + string(r)), true
}

// countCompactions counts the store.compact.swap events of a scheduler by kind.
func countCompactions(sc *Sched) (partial, full int) {
	for _, e := range sc.Events() {
		if e.Info.Point == "store.compact.swap" && len(e.Info.Extra) > 0 {
			if n, ok := e.Info.Extra[0].(int); ok && n > 0 {
				partial++
			} else {
				full++
			}
		}
	}
	return
}

// Replay runs a whole behaviour.
func Replay(id int, d Dims, steps []Step) (res Result) {
	res.ID = id
	s := NewSession(d)
	defer s.Teardown()
	keepHook = nil
	if d.CopyCheck {
		keepHook = s.keep
		defer func() { keepHook = nil }()
	}
	if err := s.Open(); err != nil {
		res.Status, res.Infra = "infra", "open: "+err.Error()
		return
	}
	shapes := map[string]bool{}
	bad := false
	for i, st := range steps {
		if err := s.Do(st); err != nil {
			res.Infra = fmt.Sprintf("step %d %s: %v", i, st.Act, err)
			if bad || len(s.conformance) > 0 {
				// the implementation already left the behaviour at an earlier step (reported there);
				// that the driver cannot follow it any further is a consequence, not an infrastructure problem
				if len(s.conformance) > 0 {
					res.Steps = append(res.Steps, StepResult{Step: i, Act: st.Act, Mismatches: s.conformance})
				}
				res.Status = "mismatch"
				return
			}
			res.Status = "infra"
			return
		}
		if s.leftModel != "" {
			res.Steps = append(res.Steps, StepResult{Step: i, Act: st.Act, Drift: []string{s.leftModel}})
			steps = steps[:i+1]
			break
		}
		full := !d.Sparse || i == len(steps)-1 || st.Act == "TakeSnapshot"
		sr := s.Observe(i, st, full)
		s.prevH = st.Exp.H
		if sr.Heights != nil {
			shapes[fmt.Sprint(sr.Heights)] = true
			n := 0
			for _, h := range sr.Heights {
				if h > 0 {
					n++
				}
			}
			if n >= 2 {
				res.Cross = true
			}
		}
		if sr.Gz0 {
			res.Gz0 = true
		}
		if len(sr.Mismatches) > 0 || len(sr.Drift) > 0 {
			res.Steps = append(res.Steps, sr)
		}
		if len(sr.Mismatches) > 0 {
			bad = true
		}
		if sr.Abort {
			break
		}
	}
	if !bad && len(steps) > 0 && s.life == "open" && s.coll != nil && d.Mode != "mem" && !d.NoEpilogue {
		if sr := s.epilogue(len(steps), steps[len(steps)-1]); len(sr.Mismatches) > 0 {
			res.Steps = append(res.Steps, sr)
			bad = true
		}
	}
	if d.CopyCheck {
		mm := s.checkKeptMapped()
		s.closeEverything()
		mm = append(mm, s.checkKeptAfterClose()...)
		if len(mm) > 0 {
			res.Steps = append(res.Steps, StepResult{Step: len(steps), Act: "CloseEverything", Mismatches: mm})
			bad = true
		}
	}
	if d.LeakCheck && d.Mode == "store" {
		if mm := s.finalLeakCheck(); len(mm) > 0 {
			res.Steps = append(res.Steps, StepResult{Step: len(steps), Act: "CloseEverything", Mismatches: mm})
			bad = true
		}
	}
	for k := range shapes {
		res.Shapes = append(res.Shapes, k)
	}
	res.Partial, res.Full = s.partial, s.full
	if s.sched != nil {
		p, f := countCompactions(s.sched)
		res.Partial += p
		res.Full += f
	}
	if bad {
		res.Status = "mismatch"
	} else {
		res.Status = "ok"
	}
	return
}
