package h

import (
	"bytes"
	"fmt"
	"sort"
	"sync"

	"github.com/couchbase/moss"
)

// AppStore is an application-supplied lower level: an immutable sorted
// map (with child maps) per snapshot, updated by the protocol the moss
// documentation describes for LowerLevelUpdate.
type AppStore struct {
	mu       sync.Mutex
	cur      *AppSnap
	Offers   []string // what each LowerLevelUpdate was offered (with deletions)
	FailNext int      // fail this many upcoming updates
	Gate     func()   // optional: called at the start of every update
}

// AppSnap is one immutable state of the application store.
type AppSnap struct {
	keys [][]byte
	vals [][]byte
	kids map[string]*AppSnap
}

func NewAppStore() *AppStore { return &AppStore{cur: &AppSnap{}} }

// FailOnce makes the update in progress (or the next one) fail.
func (a *AppStore) FailOnce() {
	a.mu.Lock()
	a.FailNext++
	a.mu.Unlock()
}

func (a *AppStore) Current() *AppSnap {
	a.mu.Lock()
	defer a.mu.Unlock()
	return a.cur
}

// Update implements moss.LowerLevelUpdate.
func (a *AppStore) Update(higher moss.Snapshot) (moss.Snapshot, error) {
	if a.Gate != nil {
		a.Gate()
	}
	a.mu.Lock()
	if a.FailNext > 0 {
		a.FailNext--
		a.mu.Unlock()
		return nil, fmt.Errorf("appstore: injected failure")
	}
	cur := a.cur
	a.mu.Unlock()
	var offer bytes.Buffer
	next, err := applyHigher(cur, higher, &offer, "")
	if err != nil {
		return nil, err
	}
	a.mu.Lock()
	a.cur = next
	a.Offers = append(a.Offers, offer.String())
	a.mu.Unlock()
	return next, nil
}

// applyHigher: iterate `higher` with deletions while skipping the lower
// level; Set stores, Del removes, Merge stores higher.Get(key).
func applyHigher(cur *AppSnap, higher moss.Snapshot, offer *bytes.Buffer, path string) (*AppSnap, error) {
	m := map[string][]byte{}
	if cur != nil {
		for i, k := range cur.keys {
			m[string(k)] = cur.vals[i]
		}
	}
	iter, err := higher.StartIterator(nil, nil, moss.IteratorOptions{IncludeDeletions: true, SkipLowerLevel: true})
	if err != nil {
		return nil, err
	}
	if iter != nil {
		for {
			ex, k, v, err := iter.CurrentEx()
			if err == moss.ErrIteratorDone {
				break
			}
			if err != nil {
				iter.Close()
				return nil, err
			}
			switch ex.Operation {
			case moss.OperationSet:
				fmt.Fprintf(offer, "%s/set %q=%q;", path, k, v)
				m[string(k)] = append([]byte{}, v...)
			case moss.OperationDel:
				fmt.Fprintf(offer, "%s/del %q;", path, k)
				delete(m, string(k))
			case moss.OperationMerge:
				fmt.Fprintf(offer, "%s/mrg %q+%q;", path, k, v)
				full, err := higher.Get(k, moss.ReadOptions{})
				if err != nil {
					iter.Close()
					return nil, err
				}
				if full == nil {
					delete(m, string(k))
				} else {
					m[string(k)] = full
				}
			}
			err = iter.Next()
			if err == moss.ErrIteratorDone {
				break
			}
			if err != nil {
				iter.Close()
				return nil, err
			}
		}
		iter.Close()
	}
	next := &AppSnap{}
	for k := range m {
		next.keys = append(next.keys, []byte(k))
	}
	sort.Slice(next.keys, func(i, j int) bool { return bytes.Compare(next.keys[i], next.keys[j]) < 0 })
	for _, k := range next.keys {
		next.vals = append(next.vals, m[string(k)])
	}
	// Children: those named by higher are kept (and updated); others are
	// dropped, as mossStore does.
	names, err := higher.ChildCollectionNames()
	if err != nil {
		return nil, err
	}
	for _, n := range names {
		cs, err := higher.ChildCollectionSnapshot(n)
		if err != nil {
			return nil, err
		}
		if cs == nil {
			continue
		}
		var prev *AppSnap
		if cur != nil && cur.kids != nil {
			prev = cur.kids[n]
		}
		child, err := applyHigher(prev, cs, offer, path+"/"+n)
		cs.Close()
		if err != nil {
			return nil, err
		}
		if next.kids == nil {
			next.kids = map[string]*AppSnap{}
		}
		next.kids[n] = child
	}
	return next, nil
}

func (s *AppSnap) Close() error { return nil }

func (s *AppSnap) find(key []byte) (int, bool) {
	i := sort.Search(len(s.keys), func(i int) bool { return bytes.Compare(s.keys[i], key) >= 0 })
	return i, i < len(s.keys) && bytes.Equal(s.keys[i], key)
}

func (s *AppSnap) Get(key []byte, ro moss.ReadOptions) ([]byte, error) {
	i, ok := s.find(key)
	if !ok {
		return nil, nil
	}
	return append([]byte{}, s.vals[i]...), nil
}

func (s *AppSnap) ChildCollectionNames() ([]string, error) {
	var out []string
	for n := range s.kids {
		out = append(out, n)
	}
	return out, nil
}

func (s *AppSnap) ChildCollectionSnapshot(name string) (moss.Snapshot, error) {
	if c, ok := s.kids[name]; ok {
		return c, nil
	}
	return nil, nil
}

func (s *AppSnap) StartIterator(start, end []byte, io moss.IteratorOptions) (moss.Iterator, error) {
	it := &appIter{s: s, start: start, end: end}
	it.seek(start)
	return it, nil
}

type appIter struct {
	s          *AppSnap
	start, end []byte
	pos        int
}

func (it *appIter) seek(k []byte) {
	if k == nil {
		it.pos = 0
		return
	}
	it.pos, _ = it.s.find(k)
}

func (it *appIter) done() bool {
	if it.pos >= len(it.s.keys) {
		return true
	}
	return it.end != nil && bytes.Compare(it.s.keys[it.pos], it.end) >= 0
}

func (it *appIter) Close() error { return nil }
func (it *appIter) Next() error {
	if it.done() {
		return moss.ErrIteratorDone
	}
	it.pos++
	if it.done() {
		return moss.ErrIteratorDone
	}
	return nil
}
func (it *appIter) SeekTo(k []byte) error {
	if it.start != nil && bytes.Compare(k, it.start) < 0 {
		k = it.start
	}
	it.seek(k)
	if it.done() {
		return moss.ErrIteratorDone
	}
	return nil
}
func (it *appIter) Current() ([]byte, []byte, error) {
	if it.done() {
		return nil, nil, moss.ErrIteratorDone
	}
	return it.s.keys[it.pos], it.s.vals[it.pos], nil
}
func (it *appIter) CurrentEx() (moss.EntryEx, []byte, []byte, error) {
	k, v, err := it.Current()
	if err != nil {
		return moss.EntryEx{}, nil, nil, err
	}
	return moss.EntryEx{Operation: moss.OperationSet}, k, v, nil
}
