package h

import (
	"bytes"
	"crypto/sha256"
	"encoding/json"
	"fmt"
	"io/ioutil"
	"os"
	"path/filepath"
	"sort"
	"strings"
	"time"

	"github.com/couchbase/moss"
)

// ---- behaviours of MossStore (MossStore!Log) ----

type SnapX struct {
	On   bool  `json:"on"`
	Upto int   `json:"upto"`
	C    []int `json:"c"`
}
type StoreExp struct {
	Upto   int     `json:"upto"`
	NSegs  int     `json:"nsegs"`
	File   int     `json:"file"`
	Nb     int     `json:"nb"`
	Errs   int     `json:"errs"`
	Last   string  `json:"last"`
	Open   bool    `json:"open"`
	Synced int     `json:"synced"`
	St     []int   `json:"st"` // store content: key -> batch number of the value (0 absent)
	Co     []int   `json:"co"` // collection content
	Sn     []SnapX `json:"sn"`
	Ex     []bool  `json:"ex"`
	Keep   []bool  `json:"keep"` // files that exist once pending removals have happened
}
type StoreStep struct {
	Act string          `json:"act"`
	Arg json.RawMessage `json:"arg"`
	Exp StoreExp        `json:"exp"`
}

// StoreDims are the harness dimensions of store replays.
type StoreDims struct {
	NKeys      int   `json:"nkeys"`
	NoSync     bool  `json:"noSync"`
	KeepFiles  bool  `json:"keepFiles"`
	Variant    int   `json:"variant"`  // which concrete fault / tear variant of the abstract step
	BigVals    bool  `json:"bigVals"`  // multi-page values
	BufPages   int   `json:"bufPages"` // CompactionBufferPages
	CompSync   bool  `json:"compSync"` // CompactionSync
	Seed       int64 `json:"seed"`
	CheckFiles bool  `json:"checkFiles"` // compare the directory listing with the model's (C07)
	ROJunk     bool  `json:"roJunk"`     // drop junk files next to the data files before a read-only open
	Kids       bool  `json:"kids"`       // every batch is mirrored into a child collection "kid", which must hold the same content
}

// FaultSpec says which file operation of the round in flight fails.
type FaultSpec struct {
	Step     int    // abstract step of MossStore (1 file, 2 segment, 3 sync, 4 footer, 5 sync)
	Ordinal  int    // which of the operations of that step
	Kind     string // "err" | "short"
	fired    bool
	seenSync int
	seenData int
	seenStat int
	seenOpen int
}

type StoreSession struct {
	D                StoreDims
	dir              string
	store            *moss.Store
	coll             moss.Collection
	sched            *Sched
	flog             *FileLog
	opts             moss.StorePersistOptions
	fault            *FaultSpec
	onErr            int
	snaps            map[int]moss.Snapshot
	ro               bool
	persistErrs      []string
	roHash           string
	inflight         string // kind of the round begun and not yet finished
	pend             bool
	closedColl       bool
	roNotifies       int // asynchronous merger notifications sent to the current (read-only) collection
	roRemovedFrom    int
	nothingCommitted bool // the model's store has never published a footer
}

func (s *StoreSession) keyBytes(k int) []byte { return []byte(fmt.Sprintf("key-%02d", k)) }
func (s *StoreSession) valBytes(n int) []byte {
	if n == 0 {
		return nil
	}
	pad := (n * 37) % 200
	if s.D.BigVals {
		pad = 3000 + (n*1237)%6000
	}
	return []byte(fmt.Sprintf("val-%03d-%s", n, strings.Repeat("x", pad)))
}

func NewStoreSession(d StoreDims) (*StoreSession, error) {
	dir, err := ioutil.TempDir(scratchBase(), "store")
	if err != nil {
		return nil, err
	}
	s := &StoreSession{D: d, dir: dir, snaps: map[int]moss.Snapshot{}}
	s.flog = &FileLog{Keep: true}
	s.flog.Fail = s.failHook
	Install()
	return s, nil
}

func (s *StoreSession) storeOptions(readOnly bool) moss.StoreOptions {
	so := moss.StoreOptions{KeepFiles: s.D.KeepFiles, CompactionBufferPages: s.D.BufPages, CompactionSync: s.D.CompSync}
	so.OpenFile = s.flog.OpenFile
	so.CollectionOptions.ReadOnly = readOnly
	return so
}

// open opens the store and a collection on top of it whose persister
// calls Store.Persist with options chosen per round.
func (s *StoreSession) open(readOnly bool) error {
	st, err := moss.OpenStore(s.dir, s.storeOptions(readOnly))
	if err != nil {
		return err
	}
	s.store = st
	s.ro = readOnly
	return s.openColl()
}

func (s *StoreSession) openColl() error {
	s.sched = NewSched()
	s.sched.Open("exec.beforeLock", "merger.beforeIngest", "close.beforeWait")
	if s.D.Kids {
		// with child collections the collection has to come from Store.OpenCollection (it restores the
		// child collections and their incarnation numbers from the footer); its persist options are
		// fixed, so this dimension is only used with append-only behaviours (Kinds = {"append"})
		so := s.storeOptions(s.ro)
		so.CollectionOptions.MaxPreMergerBatches = 16
		so.CollectionOptions.MergerIdleRunTimeoutMS = -1
		so.CollectionOptions.OnError = func(e error) { s.onErr++; s.persistErrs = append(s.persistErrs, fmt.Sprint(e)) }
		c, err := s.store.OpenCollection(so, moss.StorePersistOptions{NoSync: s.D.NoSync})
		if err != nil {
			return err
		}
		s.sched.Bind(c, s.store)
		s.coll = c
		s.closedColl = false
		s.roNotifies = 0
		if s.ro {
			return nil
		}
		return s.sched.AwaitParked("merger.loop", stepTimeout)
	}
	init, err := s.store.Snapshot()
	if err != nil {
		return err
	}
	// (the collection takes ownership of the LowerLevelInit snapshot)
	co := moss.CollectionOptions{
		MaxPreMergerBatches:    16,
		MergerIdleRunTimeoutMS: -1,
		LowerLevelInit:         init,
		ReadOnly:               s.ro,
		OnError:                func(error) { s.onErr++ },
	}
	co.LowerLevelUpdate = func(higher moss.Snapshot) (moss.Snapshot, error) {
		ss, err := s.store.Persist(higher, s.opts)
		if err != nil {
			s.persistErrs = append(s.persistErrs, err.Error())
			return nil, err
		}
		return ss, nil
	}
	c, err := moss.NewCollection(co)
	if err != nil {
		return err
	}
	s.sched.Bind(c, s.store)
	s.coll = c
	s.closedColl = false
	s.roNotifies = 0
	if err := c.Start(); err != nil {
		return err
	}
	if s.ro {
		return nil
	}
	return s.sched.AwaitParked("merger.loop", stepTimeout)
}

func (s *StoreSession) closeColl() error {
	if s.coll == nil || s.closedColl {
		return nil
	}
	done := make(chan error, 1)
	mark := s.sched.Mark()
	go func() { done <- s.coll.Close() }()
	// keep the gates shut until the collection is marked closed, so that
	// nothing more is persisted on the way out (deterministic close)
	s.sched.AwaitEvent(mark, stepTimeout, "coll.close.begin")
	s.sched.OpenAll()
	select {
	case err := <-done:
		s.closedColl = true
		s.sched.Unbind()
		return err
	case <-time.After(stepTimeout):
		return fmt.Errorf("Collection.Close did not return")
	}
}

func (s *StoreSession) Teardown() {
	for id, ss := range s.snaps {
		ss.Close()
		delete(s.snaps, id)
	}
	s.closeColl()
	if s.store != nil {
		s.store.Close()
	}
	os.RemoveAll(s.dir)
}

// ---- fault injection ----

var footerMagic = []byte("0m1o2s0m1o2s")

func (s *StoreSession) failHook(op *FileOp) (error, int) {
	f := s.fault
	if f == nil || f.fired {
		return nil, -1
	}
	hit := false
	switch op.Op {
	case "create", "open":
		if f.Step == 1 {
			hit = f.seenOpen == f.Ordinal
			f.seenOpen++
		}
	case "writeAt":
		isHdr := op.Off == 0
		isFtr := bytes.HasPrefix(op.Data, footerMagic)
		switch {
		case isHdr:
			if f.Step == 1 {
				hit = f.seenOpen == f.Ordinal
				f.seenOpen++
			}
		case isFtr:
			if f.Step == 4 {
				hit = f.Ordinal == 0
			}
		default:
			if f.Step == 2 {
				hit = f.seenData == f.Ordinal
				f.seenData++
			}
		}
	case "sync":
		f.seenSync++
		if (f.Step == 3 && f.seenSync == 1) || (f.Step == 5 && f.seenSync == 2) {
			hit = f.Ordinal == 0
		}
	case "stat":
		// stats precede segment writes (step 2) and the footer write (step 4)
		if f.Kind == "stat" {
			if (f.Step == 2 && f.seenSync == 0) || (f.Step == 4 && f.seenSync >= 1) {
				hit = f.seenStat == f.Ordinal
				f.seenStat++
			}
		}
	}
	if !hit {
		return nil, -1
	}
	if f.Kind == "stat" && op.Op != "stat" {
		return nil, -1
	}
	if f.Kind != "stat" && op.Op == "stat" {
		return nil, -1
	}
	f.fired = true
	if f.Kind == "short" && op.Op == "writeAt" {
		return nil, op.Len / 2
	}
	return fmt.Errorf("injected %s failure", op.Op), -1
}

// faultVariants lists the concrete variants of an abstract IOFail step.
func faultVariants(step int, newfile bool) []FaultSpec {
	switch step {
	case 1:
		return []FaultSpec{{Step: 1, Ordinal: 0, Kind: "err"}, {Step: 1, Ordinal: 1, Kind: "err"}, {Step: 1, Ordinal: 1, Kind: "short"}}
	case 2:
		return []FaultSpec{{Step: 2, Ordinal: 0, Kind: "err"}, {Step: 2, Ordinal: 1, Kind: "err"}, {Step: 2, Ordinal: 0, Kind: "short"},
			{Step: 2, Ordinal: 1, Kind: "short"}, {Step: 2, Ordinal: 0, Kind: "stat"}}
	case 3:
		return []FaultSpec{{Step: 3, Kind: "err"}}
	case 4:
		return []FaultSpec{{Step: 4, Kind: "err"}, {Step: 4, Kind: "short"}, {Step: 4, Kind: "stat"}}
	case 5:
		return []FaultSpec{{Step: 5, Kind: "err"}}
	}
	return nil
}

// ---- content checks ----

func (s *StoreSession) wantContent(c []int) map[string][]byte {
	m := map[string][]byte{}
	for i, n := range c {
		if n != 0 {
			m[string(s.keyBytes(i+1))] = s.valBytes(n)
		}
	}
	return m
}

// checkSnap compares a snapshot with the content TLC expects: every key
// by Get, one full iteration, and no deletion markers when asked.
func (s *StoreSession) checkSnap(ss moss.Snapshot, c []int, what string) (out []Mismatch) {
	out = s.checkSnap1(ss, c, what)
	if !s.D.Kids {
		return
	}
	// the mirror child collection: same content (it exists once something was written)
	err := safely(func() error {
		cs, err := ss.ChildCollectionSnapshot("kid")
		if err != nil {
			return err
		}
		if cs == nil {
			if len(s.wantContent(c)) > 0 {
				out = append(out, Mismatch{What: what + ".child", Got: "no child collection snapshot", Want: "child collection kid with the mirrored content"})
			}
			return nil
		}
		defer cs.Close()
		out = append(out, s.checkSnap1(cs, c, what+".child")...)
		return nil
	})
	if err != nil {
		out = append(out, Mismatch{What: what + ".child.fault", Got: err.Error(), Want: "no fault"})
	}
	return
}

func (s *StoreSession) checkSnap1(ss moss.Snapshot, c []int, what string) (out []Mismatch) {
	err := safely(func() error {
		want := s.wantContent(c)
		for i := 1; i <= s.D.NKeys; i++ {
			k := s.keyBytes(i)
			got, err := ss.Get(k, moss.ReadOptions{})
			if err != nil {
				out = append(out, Mismatch{What: what + ".get.err", Key: i, Got: err.Error()})
				continue
			}
			if !sameBytes(got, want[string(k)]) {
				out = append(out, Mismatch{What: what + ".get", Key: i, Got: showShort(got), Want: showShort(want[string(k)])})
			}
		}
		iter, err := ss.StartIterator(nil, nil, moss.IteratorOptions{})
		if err != nil {
			out = append(out, Mismatch{What: what + ".iter.err", Got: err.Error()})
			return nil
		}
		n := 0
		var keys []string
		if iter != nil {
			for {
				k, v, err := iter.Current()
				if err == moss.ErrIteratorDone {
					break
				}
				if err != nil {
					out = append(out, Mismatch{What: what + ".iter.err", Got: err.Error()})
					break
				}
				keys = append(keys, string(k))
				if !sameBytes(v, want[string(k)]) {
					out = append(out, Mismatch{What: what + ".iter", Got: fmt.Sprintf("%q=%s", k, showShort(v)), Want: showShort(want[string(k)])})
				}
				n++
				if err := iter.Next(); err != nil {
					break
				}
			}
			iter.Close()
		}
		if n != len(want) || !sort.StringsAreSorted(keys) {
			out = append(out, Mismatch{What: what + ".iter", Got: fmt.Sprintf("%d entries %q", n, keys), Want: fmt.Sprintf("%d entries", len(want))})
		}
		return nil
	})
	if err != nil {
		out = append(out, Mismatch{What: what + ".fault", Got: err.Error(), Want: "no fault"})
	}
	return
}

func showShort(b []byte) string {
	if b == nil {
		return "<nil>"
	}
	if len(b) > 12 {
		return fmt.Sprintf("%q..(%d)", b[:12], len(b))
	}
	return fmt.Sprintf("%q", b)
}

// dataFiles lists data-*.moss of the directory as file sequence numbers.
func (s *StoreSession) dataFiles() []int {
	var out []int
	fis, _ := ioutil.ReadDir(s.dir)
	for _, fi := range fis {
		if seq, err := moss.ParseFNameSeq(fi.Name()); err == nil && strings.HasPrefix(fi.Name(), "data-") {
			out = append(out, int(seq))
		}
	}
	sort.Ints(out)
	return out
}

func (s *StoreSession) dirHash() string {
	h := sha256.New()
	fis, _ := ioutil.ReadDir(s.dir)
	for _, fi := range fis {
		b, _ := ioutil.ReadFile(filepath.Join(s.dir, fi.Name()))
		fmt.Fprintf(h, "%s %d %x\n", fi.Name(), fi.Size(), sha256.Sum256(b))
	}
	return fmt.Sprintf("%x", h.Sum(nil))
}

// awaitFiles polls until the directory lists exactly the files the model
// expects (removal of superseded files is asynchronous).
func (s *StoreSession) awaitFiles(ex []bool, d time.Duration) (bool, []int) {
	var want []int
	for i, e := range ex {
		if e {
			want = append(want, i+1)
		}
	}
	deadline := time.Now().Add(d)
	for {
		got := s.dataFiles()
		if fmt.Sprint(got) == fmt.Sprint(want) {
			return true, got
		}
		if time.Now().After(deadline) {
			return false, got
		}
		time.Sleep(2 * time.Millisecond)
	}
}
