package h

import (
	"bytes"
	"fmt"
	"runtime/debug"
	"sort"

	"github.com/couchbase/moss"
)

// Val is a model value: present or not, and a sequence of tokens.
type Val struct {
	P bool  `json:"p"`
	V []int `json:"v"`
}

// CNode is the observable content of one collection in the tree.
type CNode struct {
	Ex bool  `json:"ex"`
	M  []Val `json:"m"` // indexed by key-1
}

// Content maps collection paths ("" = top level, "a", "a/a") to nodes.
type Content map[string]CNode

// Concr maps model keys, tokens and child names to bytes.
type Concr struct {
	Keys   [][]byte          // key i (1-based) -> bytes, ascending bytewise
	Tokens map[int][]byte    // token -> bytes (merge tokens >= 10 are operands)
	Names  map[string]string // model child name -> concrete name
	Sep    string
}

// DefaultConcr is the plain concretisation.
func DefaultConcr(nkeys int) *Concr {
	c := &Concr{Tokens: map[int][]byte{}, Names: map[string]string{"a": "a", "b": "b"}, Sep: ":"}
	for i := 1; i <= nkeys; i++ {
		c.Keys = append(c.Keys, []byte(fmt.Sprintf("k%02d", i)))
	}
	for t := 1; t < 10; t++ {
		c.Tokens[t] = []byte(fmt.Sprintf("v%d", t))
		c.Tokens[10+t] = []byte(fmt.Sprintf("m%d", t))
	}
	return c
}

// Bytes concretises a model value (nil when absent).
func (c *Concr) Bytes(v Val) []byte {
	if !v.P {
		return nil
	}
	out := []byte{}
	for _, t := range v.V {
		if t >= 10 {
			out = append(out, c.Sep...)
		}
		out = append(out, c.Tokens[t]...)
	}
	return out
}

// Operand returns the bytes handed to Batch.Set / Batch.Merge for an op.
func (c *Concr) Operand(v []int) []byte {
	out := []byte{}
	for _, t := range v {
		out = append(out, c.Tokens[t]...)
	}
	return out
}

// Mismatch describes one difference between the implementation and the
// expectation shipped by TLC.
type Mismatch struct {
	What string `json:"what"` // which observation (snapshot.get, snapshot.iter, coll.get, names, ...)
	Path string `json:"path"`
	Key  int    `json:"key"`
	Got  string `json:"got"`
	Want string `json:"want"`
	Note string `json:"note,omitempty"`
}

func show(b []byte) string {
	if b == nil {
		return "<nil>"
	}
	return fmt.Sprintf("%q", short(b))
}

// short abbreviates a long byte string for messages (length, head and tail kept).
func short(b []byte) []byte {
	if len(b) <= 64 {
		return b
	}
	return []byte(fmt.Sprintf("%s...(%d bytes)...%s", b[:16], len(b), b[len(b)-8:]))
}

// ReadOpts selects how a snapshot is read back.
type ReadOpts struct {
	NoCopy bool
}

// safely runs f and converts a panic or fault into an error.
func safely(f func() error) (err error) {
	defer func() {
		if r := recover(); r != nil {
			err = fmt.Errorf("panic: %v", r)
		}
	}()
	return f()
}

func init() { debug.SetPanicOnFault(true) }

// keepHook, when set (Dims.CopyCheck), receives every value a copying Snapshot.Get returned.
var keepHook func(what string, key int, b []byte)

// CheckSnapshot reads every key of the universe by Get (copying and
// not), one full ascending iteration, the child names, and recursively
// every child, and compares with want.  paths lists the model paths.
func CheckSnapshot(ss moss.Snapshot, c *Concr, want Content, paths []string, what string) []Mismatch {
	var out []Mismatch
	err := safely(func() error {
		out = checkNode(ss, c, want, paths, "", what)
		return nil
	})
	if err != nil {
		out = append(out, Mismatch{What: what + ".fault", Got: err.Error(), Want: "no fault"})
	}
	return out
}

func childPaths(paths []string, p string) (names []string) {
	for _, q := range paths {
		if q == "" || q == p {
			continue
		}
		parent, name := splitPath(q)
		if parent == p {
			names = append(names, name)
		}
	}
	sort.Strings(names)
	return
}

func splitPath(q string) (parent, name string) {
	for i := len(q) - 1; i >= 0; i-- {
		if q[i] == '/' {
			return q[:i], q[i+1:]
		}
	}
	return "", q
}

func joinPath(p, n string) string {
	if p == "" {
		return n
	}
	return p + "/" + n
}

func checkNode(ss moss.Snapshot, c *Concr, want Content, paths []string, p string, what string) []Mismatch {
	var out []Mismatch
	w := want[p]
	// point reads
	for i, kb := range c.Keys {
		var exp []byte
		if i < len(w.M) {
			exp = c.Bytes(w.M[i])
		}
		for _, nc := range []bool{false, true} {
			got, err := ss.Get(kb, moss.ReadOptions{NoCopyValue: nc})
			if err != nil {
				out = append(out, Mismatch{What: what + ".get.err", Path: p, Key: i + 1, Got: err.Error(), Want: show(exp)})
				continue
			}
			if !sameBytes(got, exp) {
				out = append(out, Mismatch{What: what + ".get", Path: p, Key: i + 1, Got: show(got), Want: show(exp)})
			} else if !nc && keepHook != nil && p == "" {
				keepHook(what+".get", i+1, got)
			}
		}
	}
	// full iteration
	var gotKeys, gotVals [][]byte
	iter, err := ss.StartIterator(nil, nil, moss.IteratorOptions{})
	if err != nil {
		out = append(out, Mismatch{What: what + ".iter.err", Path: p, Got: err.Error()})
	} else if iter != nil {
		for n := 0; n < 10000; n++ {
			k, v, err := iter.Current()
			if err == moss.ErrIteratorDone {
				break
			}
			if err != nil {
				out = append(out, Mismatch{What: what + ".iter.err", Path: p, Got: err.Error()})
				break
			}
			gotKeys = append(gotKeys, append([]byte{}, k...))
			if v == nil {
				gotVals = append(gotVals, nil)
			} else {
				gotVals = append(gotVals, append([]byte{}, v...))
			}
			if err = iter.Next(); err != nil && err != moss.ErrIteratorDone {
				out = append(out, Mismatch{What: what + ".iter.err", Path: p, Got: err.Error()})
				break
			}
			if err == moss.ErrIteratorDone {
				break
			}
		}
		iter.Close()
	}
	var wantKeys, wantVals [][]byte
	for i, kb := range c.Keys {
		if i < len(w.M) && w.M[i].P {
			wantKeys = append(wantKeys, kb)
			wantVals = append(wantVals, c.Bytes(w.M[i]))
		}
	}
	if !sameSeq(gotKeys, wantKeys) || !sameSeq(gotVals, wantVals) {
		out = append(out, Mismatch{What: what + ".iter", Path: p, Got: showKV(gotKeys, gotVals), Want: showKV(wantKeys, wantVals)})
	}
	// iterator re-positioning (C09 on whatever shape the snapshot has, and the closer
	// paths of C02/C15): run a second iterator to exhaustion, seek back to the first
	// live key (which rebuilds a heap iterator), then seek past the end
	if len(wantKeys) > 0 {
		it2, err := ss.StartIterator(nil, nil, moss.IteratorOptions{})
		if err == nil && it2 != nil {
			for n := 0; n < 10000; n++ {
				if it2.Next() != nil {
					break
				}
			}
			serr := it2.SeekTo(wantKeys[0])
			k, v, cerr := it2.Current()
			if serr != nil || cerr != nil || !bytes.Equal(k, wantKeys[0]) || !sameBytes(v, wantVals[0]) {
				out = append(out, Mismatch{What: what + ".seek", Path: p, Got: fmt.Sprintf("SeekTo(first) after exhaustion: %q=%s err=%v/%v", short(k), show(v), serr, cerr),
					Want: fmt.Sprintf("%q=%s", short(wantKeys[0]), show(wantVals[0]))})
			}
			last := append(append([]byte{}, wantKeys[len(wantKeys)-1]...), 0xff, 0xff)
			if err := it2.SeekTo(last); err != moss.ErrIteratorDone {
				out = append(out, Mismatch{What: what + ".seek", Path: p, Got: fmt.Sprintf("SeekTo(beyond last) = %v", err), Want: "ErrIteratorDone"})
			}
			it2.Close()
		}
	}
	// jumps: one iterator sought from every live key to every other one, each position read
	// with Current() and nothing in between (forward and backward seeks between entries that
	// may both be unresolved Merge entries; state cached by Current() must not survive a seek)
	if len(wantKeys) >= 2 && len(wantKeys) <= 4 {
		it3, err := ss.StartIterator(nil, nil, moss.IteratorOptions{})
		if err == nil && it3 != nil {
			rd := func(i int, how string) {
				serr := it3.SeekTo(wantKeys[i])
				k, v, cerr := it3.Current()
				if serr != nil || cerr != nil || !bytes.Equal(k, wantKeys[i]) || !sameBytes(v, wantVals[i]) {
					out = append(out, Mismatch{What: what + ".seek", Path: p, Got: fmt.Sprintf("%s: %q=%s err=%v/%v", how, short(k), show(v), serr, cerr),
						Want: fmt.Sprintf("%q=%s", short(wantKeys[i]), show(wantVals[i]))})
				}
			}
		jumps:
			for i := range wantKeys {
				for j := range wantKeys {
					if i == j {
						continue
					}
					n0 := len(out)
					rd(i, "SeekTo")
					rd(j, fmt.Sprintf("SeekTo after Current() at %q", short(wantKeys[i])))
					if len(out) > n0 {
						break jumps
					}
				}
			}
			it3.Close()
		}
	}
	// children
	names, err := ss.ChildCollectionNames()
	if err != nil {
		out = append(out, Mismatch{What: what + ".names.err", Path: p, Got: err.Error()})
	}
	sort.Strings(names)
	var wantNames []string
	for _, n := range childPaths(paths, p) {
		if want[joinPath(p, n)].Ex {
			wantNames = append(wantNames, c.Names[n])
		}
	}
	sort.Strings(wantNames)
	if fmt.Sprint(names) != fmt.Sprint(wantNames) {
		out = append(out, Mismatch{What: what + ".names", Path: p, Got: fmt.Sprint(names), Want: fmt.Sprint(wantNames)})
	}
	for _, n := range childPaths(paths, p) {
		q := joinPath(p, n)
		cs, err := ss.ChildCollectionSnapshot(c.Names[n])
		if err != nil {
			out = append(out, Mismatch{What: what + ".child.err", Path: q, Got: err.Error()})
			continue
		}
		if cs == nil {
			if want[q].Ex {
				out = append(out, Mismatch{What: what + ".child", Path: q, Got: "no child snapshot", Want: "child exists"})
			}
			continue
		}
		if !want[q].Ex {
			out = append(out, Mismatch{What: what + ".child", Path: q, Got: "child snapshot exists", Want: "no child"})
		} else {
			out = append(out, checkNode(cs, c, want, paths, q, what)...)
		}
		cs.Close()
	}
	return out
}

func sameBytes(a, b []byte) bool {
	if (a == nil) != (b == nil) {
		return false
	}
	return bytes.Equal(a, b)
}

func sameSeq(a, b [][]byte) bool {
	if len(a) != len(b) {
		return false
	}
	for i := range a {
		if !sameBytes(a[i], b[i]) {
			return false
		}
	}
	return true
}

func showKV(k, v [][]byte) string {
	s := "["
	for i := range k {
		if i > 0 {
			s += " "
		}
		s += fmt.Sprintf("%q=%s", short(k[i]), show(v[i]))
	}
	return s + "]"
}
