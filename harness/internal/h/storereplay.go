package h

import (
	"bytes"
	"encoding/json"
	"errors"
	"fmt"
	"io/ioutil"
	"os"
	"path/filepath"
	"strings"
	"time"

	"github.com/couchbase/moss"
)

var errSkip = errors.New("variant not applicable")
var errEnd = errors.New("no more variants")
var errAbort = errors.New("implementation legitimately left the model's path")

// fileRecord is a group of recorded writes that forms one record of the
// MossStore model (header, segment, footer).
type fileRecord struct {
	kind string
	ops  []FileOp
}

// records groups the recorded writes of one data file.
func (s *StoreSession) records(seq int) (exists bool, recs []fileRecord) {
	name := filepath.Join(s.dir, moss.FormatFName(int64(seq)))
	s.flog.mu.Lock()
	defer s.flog.mu.Unlock()
	openSeg := false
	for _, op := range s.flog.Ops {
		if op.Op == "mark" {
			openSeg = false
			continue
		}
		if op.Name != name || op.Err != "" {
			if op.Name == name && op.Op == "writeAt" && op.Err != "" {
				openSeg = false
			}
			continue
		}
		switch op.Op {
		case "create":
			exists = true
			recs = nil
		case "sync":
			openSeg = false
		case "writeAt":
			switch {
			case op.Off == 0:
				recs = append(recs, fileRecord{kind: "hdr", ops: []FileOp{op}})
				openSeg = false
			case bytes.HasPrefix(op.Data, footerMagic):
				recs = append(recs, fileRecord{kind: "ftr", ops: []FileOp{op}})
				openSeg = false
			default:
				if openSeg {
					recs[len(recs)-1].ops = append(recs[len(recs)-1].ops, op)
				} else {
					recs = append(recs, fileRecord{kind: "seg", ops: []FileOp{op}})
					openSeg = true
				}
			}
		}
	}
	return
}

// tearPoint: how a torn record lies on the disk -- its first n bytes, and then either the end
// of the file or zeroes up to the record's full length (the file length was extended before
// the data pages reached the disk).
type tearPoint struct {
	n    int
	zero bool
}

func tearPoints(kind string, total int) []tearPoint {
	var c []int
	switch kind {
	case "hdr":
		c = []int{1, 2048, 4095}
	case "ftr":
		c = []int{1, 11, 12, 19, 20, 21, total / 2, total - 1}
	default:
		c = []int{1, 4095, 4096, 4097, total / 2, total - 1}
	}
	var out []tearPoint
	seen := map[int]bool{}
	for _, x := range c {
		if x > 0 && x < total && !seen[x] {
			seen[x] = true
			out = append(out, tearPoint{x, false})
		}
	}
	// zero-filled tails: the begin marker, version and length of a footer (24 bytes) are on the
	// disk, its JSON partly, its end markers not; a segment with its first page only
	switch kind {
	case "ftr":
		for _, x := range []int{24, 32, total / 2, total - 4} {
			if x > 0 && x < total {
				out = append(out, tearPoint{x, true})
			}
		}
	case "seg":
		for _, x := range []int{1, 4096} {
			if x < total {
				out = append(out, tearPoint{x, true})
			}
		}
	}
	return out
}

type crashArg struct {
	Img [][]string `json:"img"` // per file, per record: "ok" | "lost" | "torn" (records lost at the tail are cut)
	K   string     `json:"k"`
	S   int        `json:"s"`
	Fex []bool     `json:"fex"` // which files exist at the moment of the crash
	Pre [][]int    `json:"pre"`
}

// syncsOf lists the positions (in the operation log) of the successful syncs of a file.
func (s *StoreSession) syncsOf(seq int) (out []uint64) {
	name := filepath.Join(s.dir, moss.FormatFName(int64(seq)))
	s.flog.mu.Lock()
	defer s.flog.mu.Unlock()
	for _, op := range s.flog.Ops {
		if op.Name == name && op.Op == "sync" && op.Err == "" {
			out = append(out, op.Seq)
		}
	}
	return
}

// materialise builds the post-crash directory the model chose from the
// recorded writes of the implementation.  The image must be one the crash
// model allows for the *recorded* trace: a record may only be lost or torn if
// the implementation did not sync the file between writing it and writing a
// record that survives (errSkip otherwise: not a legal image of this trace).
func (s *StoreSession) materialise(a crashArg) (string, error) {
	dir, err := ioutil.TempDir(scratchBase(), "crash")
	if err != nil {
		return "", err
	}
	fail := func(e error) (string, error) {
		os.RemoveAll(dir)
		return "", e
	}
	tornSeen := false
	for i, st := range a.Img {
		seq := i + 1
		if i < len(a.Fex) && !a.Fex[i] {
			continue // not created yet when the crash happens
		}
		exists, recs := s.records(seq)
		if !exists {
			if len(st) > 0 {
				return fail(fmt.Errorf("model expects %d records in file %d which the implementation never created", len(st), seq))
			}
			continue
		}
		if len(st) > len(recs) {
			return fail(fmt.Errorf("file %d: model has %d records, implementation wrote %d", seq, len(st), len(recs)))
		}
		// legality against the recorded syncs
		syncs := s.syncsOf(seq)
		for j := 0; j < len(recs) && j < len(st)+1; j++ {
			lostJ := j >= len(st) || st[j] != "ok"
			if !lostJ {
				continue
			}
			lastWrite := recs[j].ops[len(recs[j].ops)-1].Seq
			for k := j + 1; k < len(st); k++ {
				if st[k] == "lost" {
					continue
				}
				firstWrite := recs[k].ops[0].Seq
				for _, sy := range syncs {
					if sy > lastWrite && sy < firstWrite {
						return fail(errSkip) // record j was durable before record k was written
					}
				}
			}
		}
		f, err := os.OpenFile(filepath.Join(dir, moss.FormatFName(int64(seq))), os.O_RDWR|os.O_CREATE, 0600)
		if err != nil {
			return fail(err)
		}
		for j := 0; j < len(st); j++ {
			rec := recs[j]
			if st[j] == "lost" {
				continue
			}
			limit := -1
			if st[j] == "torn" {
				total := 0
				for _, op := range rec.ops {
					total += len(op.Data)
				}
				pts := tearPoints(rec.kind, total)
				if s.D.Variant >= len(pts) {
					f.Close()
					return fail(errEnd)
				}
				limit = pts[s.D.Variant].n
				tornSeen = true
				if pts[s.D.Variant].zero && len(rec.ops) > 0 {
					// the file already has its full length; what was not written reads as zeroes
					last := rec.ops[len(rec.ops)-1]
					if err := f.Truncate(last.Off + int64(len(last.Data))); err != nil {
						f.Close()
						return fail(err)
					}
				}
			}
			for _, op := range rec.ops {
				data := op.Data
				if limit >= 0 {
					if limit == 0 {
						break
					}
					if len(data) > limit {
						data = data[:limit]
					}
					limit -= len(data)
				}
				if _, err := f.WriteAt(data, op.Off); err != nil {
					f.Close()
					return fail(err)
				}
			}
		}
		f.Close()
	}
	if !tornSeen && s.D.Variant > 0 {
		return fail(errEnd)
	}
	return dir, nil
}

func (s *StoreSession) mergerCycle() error {
	sc := s.sched
	mark := sc.Mark()
	if err := s.coll.(Notifier).NotifyMerger("mergeAll", false); err != nil {
		return err
	}
	sc.Release("merger.loop")
	if _, err := sc.AwaitEvent(mark, stepTimeout, "merger.ingest"); err != nil {
		return err
	}
	if err := sc.AwaitParked("merger.beforeSwap", stepTimeout); err != nil {
		return err
	}
	sc.Release("merger.beforeSwap")
	if _, err := sc.AwaitEvent(mark, stepTimeout, "merger.swap", "merger.skip"); err != nil {
		return err
	}
	if err := sc.AwaitParked("merger.beforeHandoff", stepTimeout); err != nil {
		return err
	}
	sc.Release("merger.beforeHandoff")
	if _, err := sc.AwaitEvent(mark, stepTimeout, "merger.handoff", "merger.handoffskip"); err != nil {
		return err
	}
	if err := sc.AwaitParked("merger.loop", stepTimeout); err != nil {
		return err
	}
	return sc.AwaitParked("persister.beforeUpdate", stepTimeout)
}

// runRound lets the persister run one round; it returns whether the round
// reported success.
func (s *StoreSession) runRound() (ok bool, err error) {
	sc := s.sched
	mark := sc.Mark()
	nerr := len(s.persistErrs)
	sc.Release("persister.beforeUpdate")
	deadline := time.Now().Add(stepTimeout)
	for {
		if len(s.persistErrs) > nerr {
			if _, err := sc.AwaitEvent(mark, stepTimeout, "persister.error"); err != nil {
				return false, err
			}
			return false, sc.AwaitParked("persister.beforeUpdate", stepTimeout)
		}
		if sc.AwaitParked("persister.beforeSwap", 2*time.Millisecond) == nil {
			break
		}
		if time.Now().After(deadline) {
			return false, fmt.Errorf("persistence round neither failed nor completed")
		}
	}
	sc.Release("persister.beforeSwap")
	if _, err := sc.AwaitEvent(mark, stepTimeout, "persister.swap"); err != nil {
		return false, err
	}
	return true, nil
}

func (s *StoreSession) checkStore(c []int, what string) []Mismatch {
	if s.store == nil {
		return nil
	}
	ss, err := s.store.Snapshot()
	if err != nil || ss == nil {
		return []Mismatch{{What: what + ".err", Got: fmt.Sprint(err)}}
	}
	defer ss.Close()
	return s.checkSnap(ss, c, what)
}

func (s *StoreSession) checkColl(c []int, what string) []Mismatch {
	if s.coll == nil || s.closedColl {
		return nil
	}
	ss, err := s.coll.Snapshot()
	if err != nil {
		return []Mismatch{{What: what + ".err", Got: err.Error()}}
	}
	defer ss.Close()
	return s.checkSnap(ss, c, what)
}

// shape of the store after a full compaction (C07).
func (s *StoreSession) checkFullShape() (out []Mismatch) {
	ss, err := s.store.Snapshot()
	if err != nil || ss == nil {
		return []Mismatch{{What: "shape.err", Got: fmt.Sprint(err)}}
	}
	defer ss.Close()
	ft, ok := ss.(*moss.Footer)
	if !ok {
		return []Mismatch{{What: "shape.err", Got: "store snapshot is not a *Footer"}}
	}
	if len(ft.SegmentLocs) > 1 {
		out = append(out, Mismatch{What: "shape.segments", Got: fmt.Sprint(len(ft.SegmentLocs)), Want: "<= 1"})
	}
	for _, sl := range ft.SegmentLocs {
		if sl.TotOpsDel != 0 {
			out = append(out, Mismatch{What: "shape.dels", Got: fmt.Sprint(sl.TotOpsDel), Want: "0"})
		}
	}
	iter, err := ss.StartIterator(nil, nil, moss.IteratorOptions{IncludeDeletions: true})
	if err == nil && iter != nil {
		seen := map[string]bool{}
		for {
			ex, k, _, err := iter.CurrentEx()
			if err != nil {
				break
			}
			if ex.Operation != moss.OperationSet {
				out = append(out, Mismatch{What: "shape.marker", Got: fmt.Sprintf("op %x for %q", ex.Operation, k), Want: "set entries only"})
			}
			if seen[string(k)] {
				out = append(out, Mismatch{What: "shape.dup", Got: fmt.Sprintf("%q twice", k)})
			}
			seen[string(k)] = true
			if iter.Next() != nil {
				break
			}
		}
		iter.Close()
	}
	return
}

// copyAndReopen copies the directory as it is now and checks that the copy
// opens and holds want -- or, when later prefixes are given, the reference
// after one of them (C06: no good file replaced or lost; a reopen is never
// older than what the store exposed).
func (s *StoreSession) copyAndReopen(want []int, what string, later ...[]int) (out []Mismatch) {
	dir, err := ioutil.TempDir(scratchBase(), "copy")
	if err != nil {
		return nil
	}
	defer os.RemoveAll(dir)
	fis, _ := ioutil.ReadDir(s.dir)
	for _, fi := range fis {
		b, err := ioutil.ReadFile(filepath.Join(s.dir, fi.Name()))
		if err == nil {
			ioutil.WriteFile(filepath.Join(dir, fi.Name()), b, 0600)
		}
	}
	err = safely(func() error {
		st, err := moss.OpenStore(dir, moss.StoreOptions{KeepFiles: true})
		if err != nil {
			mm := Mismatch{What: what + ".open", Got: err.Error(), Want: "opens"}
			if s.nothingCommitted {
				mm.Note = "nothing-committed"
			}
			out = append(out, mm)
			return nil
		}
		defer st.Close()
		ss, _ := st.Snapshot()
		if ss != nil {
			mm := s.checkSnap(ss, want, what)
			for _, w := range later {
				if len(mm) == 0 {
					break
				}
				if len(s.checkSnap(ss, w, what)) == 0 {
					mm = nil
				}
			}
			out = append(out, mm...)
			ss.Close()
		}
		return nil
	})
	if err != nil {
		out = append(out, Mismatch{What: what + ".fault", Got: err.Error()})
	}
	return
}

// roCheck verifies that nothing touched the directory since the read-only open.
func (s *StoreSession) roCheck(from int) (out []Mismatch) {
	if h := s.dirHash(); h != s.roHash {
		out = append(out, Mismatch{What: "readonly.dirchanged", Got: fmt.Sprint(s.dataFiles()), Want: "directory unchanged"})
		s.roHash = h
	}
	s.flog.mu.Lock()
	for _, op := range s.flog.Ops[from:] {
		if op.Err != "" {
			continue // an attempt that the read-only descriptor refused changed nothing
		}
		switch op.Op {
		case "writeAt", "truncate", "create": // (a Sync alone changes nothing: SnapshotRevert on a read-only store syncs, then fails on its write)
			out = append(out, Mismatch{What: "readonly.fileop", Got: fmt.Sprintf("%s %s", op.Op, filepath.Base(op.Name)), Want: "no mutating file operation"})
		case "open":
			if op.Flag&(os.O_WRONLY|os.O_RDWR|os.O_CREATE|os.O_TRUNC) != 0 {
				out = append(out, Mismatch{What: "readonly.openflag", Got: fmt.Sprintf("flag %x", op.Flag), Want: "O_RDONLY"})
			}
		}
	}
	s.flog.mu.Unlock()
	s.sched.mu.Lock()
	if s.roRemovedFrom < 0 {
		s.roRemovedFrom = 0
	}
	rem := append([]string(nil), s.sched.Removed[s.roRemovedFrom:]...)
	s.sched.mu.Unlock()
	for _, r := range rem {
		if strings.HasPrefix(r, s.dir) {
			out = append(out, Mismatch{What: "readonly.remove", Got: filepath.Base(r), Want: "no file removed"})
		}
	}
	return
}

// ReplayStore runs one MossStore behaviour against the implementation.
func ReplayStore(id int, d StoreDims, steps []StoreStep) (res Result) {
	res.ID = id
	s, err := NewStoreSession(d)
	if err != nil {
		res.Status, res.Infra = "infra", err.Error()
		return
	}
	defer s.Teardown()
	if err := s.open(false); err != nil {
		res.Status, res.Infra = "infra", "open: "+err.Error()
		return
	}
	bad := false
	roFrom := 0
	var beginCo []int
	for i, st := range steps {
		sr := StepResult{Step: i, Act: st.Act}
		exp := st.Exp
		s.nothingCommitted = exp.File == 0 && exp.Upto == 0
		var err error
		switch st.Act {
		case "NewBatch":
			var a struct {
				N   int      `json:"n"`
				Ops []string `json:"ops"`
			}
			json.Unmarshal(st.Arg, &a)
			b, e := s.coll.NewBatch(0, 0)
			if e != nil {
				err = e
				break
			}
			var kb moss.Batch
			if d.Kids {
				if kb, e = b.NewChildCollectionBatch("kid", moss.BatchOptions{}); e != nil {
					err = e
					break
				}
			}
			for k, o := range a.Ops {
				switch o {
				case "set":
					b.Set(s.keyBytes(k+1), s.valBytes(a.N))
					if kb != nil {
						kb.Set(s.keyBytes(k+1), s.valBytes(a.N))
					}
				case "del":
					b.Del(s.keyBytes(k + 1))
					if kb != nil {
						kb.Del(s.keyBytes(k + 1))
					}
				}
			}
			err = s.coll.ExecuteBatch(b, moss.WriteOptions{})
			b.Close()
			if err == nil && d.Kids && a.N%3 == 0 {
				// every third batch the mirror child collection is deleted and created again with the content it
				// must have now (two more batches, persisted by the same round): a new incarnation whose segments
				// start afresh, so that older footers of the history hold segments the newer ones do not
				for phase := 0; phase < 2 && err == nil; phase++ {
					b2, e := s.coll.NewBatch(0, 0)
					if e != nil {
						err = e
						break
					}
					if phase == 0 {
						err = b2.DelChildCollection("kid")
					} else {
						kb2, e := b2.NewChildCollectionBatch("kid", moss.BatchOptions{})
						if e != nil {
							err = e
						} else {
							for k, n := range exp.Co {
								if n != 0 {
									kb2.Set(s.keyBytes(k+1), s.valBytes(n))
								}
							}
						}
					}
					if err == nil {
						err = s.coll.ExecuteBatch(b2, moss.WriteOptions{})
					}
					b2.Close()
				}
			}
			sr.Mismatches = append(sr.Mismatches, s.checkColl(exp.Co, "coll")...)
		case "Begin":
			var a struct {
				Kind string `json:"kind"`
			}
			json.Unmarshal(st.Arg, &a)
			s.opts = moss.StorePersistOptions{NoSync: d.NoSync}
			switch a.Kind {
			case "full":
				if d.Kids {
					err = fmt.Errorf("the kids dimension needs append-only behaviours")
					break
				}
				s.opts.CompactionConcern = moss.CompactionForce
			case "partial":
				s.opts.CompactionConcern = moss.CompactionAllow
			}
			s.flog.add(FileOp{Op: "mark"})
			if !s.pend {
				err = s.mergerCycle()
			}
			s.inflight = a.Kind
			beginCo = exp.Co
			s.fault = nil
			if i+1 < len(steps) && steps[i+1].Act == "IOFail" {
				var fa struct {
					Step    int  `json:"step"`
					Newfile bool `json:"newfile"`
				}
				json.Unmarshal(steps[i+1].Arg, &fa)
				vs := faultVariants(fa.Step, fa.Newfile)
				if d.Variant >= len(vs) {
					res.Status = "end"
					return
				}
				f := vs[d.Variant]
				s.fault = &f
			}
		case "IdleRound":
			// the persister hands down an empty stack and the store finds nothing to do: nothing may change
			var a struct {
				Kind string `json:"kind"`
			}
			json.Unmarshal(st.Arg, &a)
			if d.Kids && a.Kind == "full" {
				err = fmt.Errorf("the kids dimension needs append-only behaviours")
				break
			}
			s.opts = moss.StorePersistOptions{NoSync: d.NoSync}
			if a.Kind == "full" {
				s.opts.CompactionConcern = moss.CompactionForce
			}
			if err = s.mergerCycle(); err != nil {
				break
			}
			var ok bool
			ok, err = s.runRound()
			if err == nil && !ok {
				sr.Mismatches = append(sr.Mismatches, Mismatch{What: "round.failed", Got: fmt.Sprint(s.persistErrs), Want: "an idle round succeeds"})
				err = errAbort
				break
			}
			if err != nil {
				break
			}
			sr.Mismatches = append(sr.Mismatches, s.checkStore(exp.St, "store")...)
			sr.Mismatches = append(sr.Mismatches, s.checkColl(exp.Co, "coll")...)
			if d.CheckFiles {
				if okf, got := s.awaitFiles(exp.Keep, 3*time.Second); !okf {
					sr.Mismatches = append(sr.Mismatches, Mismatch{What: "files", Got: fmt.Sprint(got), Want: fmt.Sprint(exp.Keep)})
				}
			}
		case "RoundOk":
			var ok bool
			ok, err = s.runRound()
			if err == nil && !ok {
				sr.Mismatches = append(sr.Mismatches, Mismatch{What: "round.failed", Got: fmt.Sprint(s.persistErrs), Want: "round succeeds"})
				err = errAbort
				break
			}
			s.pend, s.inflight = false, ""
			sr.Mismatches = append(sr.Mismatches, s.checkStore(exp.St, "store")...)
			sr.Mismatches = append(sr.Mismatches, s.checkColl(exp.Co, "coll")...)
			var a struct {
				Kind string `json:"kind"`
			}
			json.Unmarshal(st.Arg, &a)
			if a.Kind == "full" {
				sr.Mismatches = append(sr.Mismatches, s.checkFullShape()...)
			}
			if d.CheckFiles {
				if okf, got := s.awaitFiles(exp.Keep, 3*time.Second); !okf {
					sr.Mismatches = append(sr.Mismatches, Mismatch{What: "files", Got: fmt.Sprint(got), Want: fmt.Sprint(exp.Keep)})
				}
			}
		case "IOFail":
			var ok bool
			onErrBefore := s.onErr
			ok, err = s.runRound()
			if err != nil {
				break
			}
			if !s.fault.fired {
				res.Status = "skip" // this variant's operation does not occur in this round
				return
			}
			if ok {
				// the failure was not surfaced: does the published state hold the round's batches?
				sr.Mismatches = append(sr.Mismatches, Mismatch{What: "fault.notsurfaced", Got: fmt.Sprintf("step %d %s ordinal %d: Persist reported success", s.fault.Step, s.fault.Kind, s.fault.Ordinal), Want: "error from Persist / OnError"})
				sr.Mismatches = append(sr.Mismatches, s.checkStore(beginCo, "fault.published")...)
				sr.Mismatches = append(sr.Mismatches, s.copyAndReopen(beginCo, "fault.published.reopen")...)
				err = errAbort
				break
			}
			s.pend = true
			if s.onErr <= onErrBefore {
				sr.Mismatches = append(sr.Mismatches, Mismatch{What: "fault.onerror", Got: "OnError not called", Want: "OnError called"})
			}
			sr.Mismatches = append(sr.Mismatches, s.checkStore(exp.St, "fault.store")...)
			sr.Mismatches = append(sr.Mismatches, s.checkColl(exp.Co, "fault.coll")...)
			var fa struct {
				Pre [][]int `json:"pre"`
			}
			json.Unmarshal(st.Arg, &fa)
			var later [][]int
			if exp.Upto+1 < len(fa.Pre) {
				later = fa.Pre[exp.Upto+1:]
			}
			sr.Mismatches = append(sr.Mismatches, s.copyAndReopen(exp.St, "fault.reopen", later...)...)
			s.fault = nil
		case "TakeSnap", "Previous", "CloseSnap", "Revert":
			var a struct {
				Id int `json:"id"`
			}
			json.Unmarshal(st.Arg, &a)
			switch st.Act {
			case "TakeSnap":
				ss, e := s.store.Snapshot()
				if e != nil || ss == nil {
					err = fmt.Errorf("Store.Snapshot: %v", e)
					break
				}
				s.snaps[a.Id] = ss
			case "Previous":
				prev, e := s.store.SnapshotPrevious(s.snaps[a.Id])
				if e != nil {
					sr.Mismatches = append(sr.Mismatches, Mismatch{What: "history.err", Got: e.Error()})
					err = errAbort
					break
				}
				s.snaps[a.Id].Close()
				delete(s.snaps, a.Id)
				want := exp.Sn[a.Id-1]
				if prev == nil {
					if want.On {
						sr.Mismatches = append(sr.Mismatches, Mismatch{What: "history.previous", Got: "nil", Want: fmt.Sprintf("content after batch %d", want.Upto)})
						err = errAbort
					}
				} else {
					if !want.On {
						sr.Mismatches = append(sr.Mismatches, Mismatch{What: "history.previous", Got: "a snapshot", Want: "nil (end of history)"})
						prev.Close()
						err = errAbort
					} else {
						s.snaps[a.Id] = prev
					}
				}
			case "CloseSnap":
				if ss := s.snaps[a.Id]; ss != nil {
					ss.Close()
					delete(s.snaps, a.Id)
				}
			case "Revert":
				if e := s.closeColl(); e != nil {
					err = e
					break
				}
				if e := s.store.SnapshotRevert(s.snaps[a.Id]); e != nil {
					sr.Mismatches = append(sr.Mismatches, Mismatch{What: "revert.err", Got: e.Error(), Want: "revert succeeds"})
					err = errAbort
					break
				}
				s.pend = false
				if e := s.openColl(); e != nil {
					err = e
					break
				}
				sr.Mismatches = append(sr.Mismatches, s.checkStore(exp.St, "revert.store")...)
				sr.Mismatches = append(sr.Mismatches, s.checkColl(exp.Co, "revert.coll")...)
				sr.Mismatches = append(sr.Mismatches, s.copyAndReopen(exp.St, "revert.reopen")...)
			}
		case "CloseStore":
			for id, ss := range s.snaps {
				ss.Close()
				delete(s.snaps, id)
			}
			if e := s.closeColl(); e != nil {
				err = e
				break
			}
			if e := s.store.Close(); e != nil {
				sr.Mismatches = append(sr.Mismatches, Mismatch{What: "close.err", Got: e.Error()})
			}
			s.store = nil
			s.pend = false
			if !d.KeepFiles && d.CheckFiles {
				if okf, got := s.awaitFiles(exp.Keep, 3*time.Second); !okf {
					sr.Mismatches = append(sr.Mismatches, Mismatch{What: "files.afterclose", Got: fmt.Sprint(got), Want: fmt.Sprint(exp.Keep)})
				}
			}
		case "Reopen":
			var a struct {
				Ro bool `json:"ro"`
			}
			json.Unmarshal(st.Arg, &a)
			if a.Ro {
				// let the asynchronous removals of the previous incarnation finish first
				s.awaitFiles(exp.Keep, 3*time.Second)
				if d.ROJunk {
					ioutil.WriteFile(filepath.Join(s.dir, "junk.txt"), []byte("junk"), 0600)
					if exp.File != 0 { // next to a real data file: an incomplete newer file and an empty older one
						ioutil.WriteFile(filepath.Join(s.dir, moss.FormatFName(int64(len(exp.Ex)+5))), []byte("not a moss file"), 0600)
						ioutil.WriteFile(filepath.Join(s.dir, moss.FormatFName(0)), nil, 0600)
					}
				}
				s.roHash = s.dirHash()
				s.flog.mu.Lock()
				roFrom = len(s.flog.Ops)
				s.flog.mu.Unlock()
				s.roRemovedFrom = -1 // set once the new scheduler exists
			}
			if e := safely(func() error { return s.open(a.Ro) }); e != nil {
				mm := Mismatch{What: "reopen.open", Got: e.Error(), Want: "opens"}
				if !exp.Open {
					mm.Note = "model-predicted-failure"
				}
				sr.Mismatches = append(sr.Mismatches, mm)
				err = errAbort
				break
			}
			sr.Mismatches = append(sr.Mismatches, s.checkStore(exp.St, "reopen.store")...)
			sr.Mismatches = append(sr.Mismatches, s.checkColl(exp.Co, "reopen.coll")...)
		case "ReadOnlyPersist":
			b, e := s.coll.NewBatch(0, 0)
			if e == nil {
				b.Set([]byte("ro-key"), []byte("ro-val"))
				s.coll.ExecuteBatch(b, moss.WriteOptions{})
				b.Close()
			}
			// (a read-only collection has no merger goroutine: asynchronous notifications only queue up in
			// the ping channel, capacity 10, and the next one would block for ever -- stay below that)
			if s.roNotifies < 5 {
				s.roNotifies++
				s.coll.(Notifier).NotifyMerger("mergeAll", false)
			}
			s.coll.Stats()
			if cs, e := s.coll.Snapshot(); e == nil {
				s.store.Persist(cs, moss.StorePersistOptions{CompactionConcern: moss.CompactionForce})
				cs.Close()
			}
			if ps, e := s.store.Persist(nil, moss.StorePersistOptions{CompactionConcern: moss.CompactionForce}); e == nil && ps != nil {
				ps.Close()
			}
			s.store.Stats()
			// the store's own mutating calls: walking the history is a read, reverting to an older footer
			// (or to the current one) must fail or do nothing on a read-only store
			if cur, e := s.store.Snapshot(); e == nil && cur != nil {
				if prev, e := s.store.SnapshotPrevious(cur); e == nil && prev != nil {
					s.store.SnapshotRevert(prev)
					prev.Close()
				} else {
					s.store.SnapshotRevert(cur)
				}
				cur.Close()
			}
			sr.Mismatches = append(sr.Mismatches, s.checkStore(exp.St, "readonly.store")...)
		case "Crash":
			var a crashArg
			json.Unmarshal(st.Arg, &a)
			if s.inflight != "" {
				s.fault = nil
				if _, e := s.runRound(); e != nil {
					err = e
					break
				}
			}
			img, e := s.materialise(a)
			if e == errSkip || e == errEnd {
				res.Status = map[bool]string{true: "skip", false: "end"}[e == errSkip]
				return
			}
			if e != nil {
				err = e
				break
			}
			for id, ss := range s.snaps {
				ss.Close()
				delete(s.snaps, id)
			}
			s.closeColl()
			s.store.Close()
			old := s.dir
			s.dir = img
			os.RemoveAll(old)
			s.flog = &FileLog{Keep: true}
			s.flog.Fail = s.failHook
			s.pend, s.inflight = false, ""
			if e := safely(func() error { return s.open(false) }); e != nil {
				mm := Mismatch{What: "crash.open", Got: e.Error(), Want: fmt.Sprintf("opens with the content after batch %d", exp.Upto)}
				if !exp.Open {
					mm.Note = "model-predicted-failure" // a named deviation of the specification predicts exactly this failure
				}
				sr.Mismatches = append(sr.Mismatches, mm)
				err = errAbort
				break
			}
			mm := s.checkStore(exp.St, "crash.store")
			if len(mm) > 0 {
				found := -1
				for j := len(a.Pre) - 1; j >= 0; j-- {
					if len(s.checkStore(a.Pre[j], "crash.store")) == 0 {
						found = j
						break
					}
				}
				if found >= exp.Synced && found >= 0 {
					sr.Drift = append(sr.Drift, fmt.Sprintf("recovered prefix %d, model predicted %d", found, exp.Upto))
					err = errAbort
				} else {
					if found >= 0 {
						mm = append(mm, Mismatch{What: "crash.behind", Got: fmt.Sprintf("prefix %d", found), Want: fmt.Sprintf("at least %d (synced)", exp.Synced)})
					}
					sr.Mismatches = append(sr.Mismatches, mm...)
					err = errAbort
				}
			}
		default:
			err = fmt.Errorf("unknown action %q", st.Act)
		}
		if s.ro && s.store != nil && st.Act != "CloseStore" {
			sr.Mismatches = append(sr.Mismatches, s.roCheck(roFrom)...)
		}
		// held store snapshots keep their content (C12 walk positions, C02/C15 for the store)
		for id, ss := range s.snaps {
			if id-1 < len(exp.Sn) && exp.Sn[id-1].On {
				sr.Mismatches = append(sr.Mismatches, s.checkSnap(ss, exp.Sn[id-1].C, "history.snap")...)
			}
		}
		if len(sr.Mismatches) > 0 || len(sr.Drift) > 0 {
			res.Steps = append(res.Steps, sr)
		}
		if len(sr.Mismatches) > 0 {
			bad = true
		}
		if err == errAbort {
			break
		}
		if err != nil {
			res.Status, res.Infra = "infra", fmt.Sprintf("step %d %s: %v", i, st.Act, err)
			return
		}
	}
	if bad {
		res.Status = "mismatch"
	} else {
		res.Status = "ok"
	}
	return
}
