package h

import (
	"fmt"
	"os"
	"sync"
	"sync/atomic"

	"github.com/couchbase/moss"
)

// FileOp is one recorded operation on a data file.
type FileOp struct {
	Seq  uint64 `json:"seq"`
	Op   string `json:"op"` // open, create, writeAt, sync, truncate, close, stat, readAt, remove
	Name string `json:"name"`
	Off  int64  `json:"off,omitempty"`
	Len  int    `json:"len,omitempty"`
	Flag int    `json:"flag,omitempty"`
	Data []byte `json:"-"`
	Err  string `json:"err,omitempty"`
}

// FileLog records file operations and injects failures.
type FileLog struct {
	mu   sync.Mutex
	Ops  []FileOp
	Keep bool // keep payloads of writes

	// Fail decides whether the operation fails (called with the lock held);
	// it may return an error and, for writes, a short count >= 0 (-1: none).
	Fail func(op *FileOp) (error, int)
}

func (l *FileLog) add(op FileOp) (error, int) {
	l.mu.Lock()
	defer l.mu.Unlock()
	op.Seq = NextSeq()
	var err error
	short := -1
	if l.Fail != nil {
		err, short = l.Fail(&op)
		if err != nil {
			op.Err = err.Error()
		}
	}
	l.Ops = append(l.Ops, op)
	return err, short
}

// WFile wraps an *os.File.
type WFile struct {
	f    *os.File
	name string
	log  *FileLog
}

func (w *WFile) OsFile() *os.File { return w.f }

func (w *WFile) ReadAt(p []byte, off int64) (int, error) {
	if err, _ := w.log.add(FileOp{Op: "readAt", Name: w.name, Off: off, Len: len(p)}); err != nil {
		return 0, err
	}
	return w.f.ReadAt(p, off)
}

func (w *WFile) WriteAt(p []byte, off int64) (int, error) {
	op := FileOp{Op: "writeAt", Name: w.name, Off: off, Len: len(p)}
	if w.log.Keep {
		op.Data = append([]byte{}, p...)
	}
	err, short := w.log.add(op)
	if err != nil {
		if short > 0 {
			n, _ := w.f.WriteAt(p[:short], off)
			return n, err
		}
		return 0, err
	}
	if short >= 0 && short < len(p) { // short write without error
		return w.f.WriteAt(p[:short], off)
	}
	n, e := w.f.WriteAt(p, off)
	if e != nil && n == 0 {
		w.log.refused(w.name, off, e) // nothing was written (for instance a read-only descriptor)
	}
	return n, e
}

// refused marks the most recent recorded write of name at off as one the operating system refused.
func (l *FileLog) refused(name string, off int64, e error) {
	l.mu.Lock()
	defer l.mu.Unlock()
	for i := len(l.Ops) - 1; i >= 0; i-- {
		if op := &l.Ops[i]; op.Op == "writeAt" && op.Name == name && op.Off == off {
			if op.Err == "" {
				op.Err = "refused: " + e.Error()
			}
			return
		}
	}
}

func (w *WFile) Close() error {
	w.log.add(FileOp{Op: "close", Name: w.name})
	return w.f.Close()
}

func (w *WFile) Stat() (os.FileInfo, error) {
	if err, _ := w.log.add(FileOp{Op: "stat", Name: w.name}); err != nil {
		return nil, err
	}
	return w.f.Stat()
}

func (w *WFile) Sync() error {
	if err, _ := w.log.add(FileOp{Op: "sync", Name: w.name}); err != nil {
		return err
	}
	return w.f.Sync()
}

func (w *WFile) Truncate(size int64) error {
	if err, _ := w.log.add(FileOp{Op: "truncate", Name: w.name, Off: size}); err != nil {
		return err
	}
	return w.f.Truncate(size)
}

// OpenFile returns a moss.OpenFile that records into the log.
func (l *FileLog) OpenFile(name string, flag int, perm os.FileMode) (moss.File, error) {
	opname := "open"
	if flag&os.O_CREATE != 0 {
		opname = "create"
	}
	if err, _ := l.add(FileOp{Op: opname, Name: name, Flag: flag}); err != nil {
		return nil, err
	}
	f, err := os.OpenFile(name, flag, perm)
	if err != nil {
		return nil, err
	}
	return &WFile{f: f, name: name, log: l}, nil
}

// ---- session plumbing ----

func (s *Session) openFile(name string, flag int, perm os.FileMode) (moss.File, error) {
	if s.flog == nil {
		s.flog = &FileLog{}
		s.flog.Fail = func(op *FileOp) (error, int) {
			if op.Op == "writeAt" && atomic.LoadInt32(&s.failWrites) > 0 {
				atomic.AddInt32(&s.failWrites, -1)
				return fmt.Errorf("injected write failure"), -1
			}
			return nil, -1
		}
	}
	return s.flog.OpenFile(name, flag, perm)
}

func (s *Session) armWriteFailure() { atomic.StoreInt32(&s.failWrites, 1) }
