// Package h is the shared part of the conformance harness: gates and
// event log bound to the verif hooks of moss, concretisation of model
// values, and read-back of everything observable through the API.
//
// It contains no reference model: expected values come from TLC.
package h

import (
	"encoding/json"
	"fmt"
	"os"
	"sync"
	"time"

	"github.com/couchbase/moss"
)

// Event is one hook event (a linearization point of the implementation).
type Event struct {
	Seq  uint64
	Info moss.VerifInfo
}

// Sched parks the background goroutines of one collection at the
// verif gates and records its trace events.
type Sched struct {
	mu   sync.Mutex
	cond *sync.Cond

	coll  moss.Collection
	store *moss.Store

	permits map[string]int  // released passes per gate point
	open    map[string]bool // pass-through gates
	parked  map[string]int  // goroutines currently parked per gate point
	allOpen bool

	events []Event
	seq    uint64

	Removed []string // paths handed to os.Remove (verifOnRemove)
}

var (
	regMu         sync.Mutex
	registry      = map[moss.Collection]*Sched{}
	storeReg      = map[*moss.Store]*Sched{}
	pending       *Sched // collection being opened (hooks may fire before we know its pointer)
	retired       = map[moss.Collection]bool{}
	retiredStores = map[*moss.Store]bool{}
	installed     bool
	globalSeq     uint64
	globalMu      sync.Mutex
)

// Install sets the global hook variables (once per process).
func Install() {
	regMu.Lock()
	defer regMu.Unlock()
	if installed {
		return
	}
	installed = true
	storeTraceInit()
	moss.VerifTracer = func(info moss.VerifInfo) {
		if info.Store != nil {
			storeTraceEvent(info)
		}
		s := lookup(info.Coll, info.Store)
		if s != nil {
			s.record(info)
		}
	}
	moss.VerifGater = func(point string, coll moss.Collection) {
		s := lookup(coll, nil)
		if s != nil {
			s.gate(point)
		}
	}
	moss.VerifRemoveObserver = func(path string) {
		regMu.Lock()
		s := pending
		if s == nil {
			for _, x := range registry {
				s = x
				break
			}
		}
		regMu.Unlock()
		if s != nil {
			s.mu.Lock()
			s.Removed = append(s.Removed, path)
			s.mu.Unlock()
		}
	}
}

func lookup(c moss.Collection, st *moss.Store) *Sched {
	regMu.Lock()
	defer regMu.Unlock()
	if c != nil {
		if s, ok := registry[c]; ok {
			return s
		}
		if retired[c] {
			return nil // a collection of an earlier session: never gate or record it in a later one
		}
	}
	if st != nil {
		if s, ok := storeReg[st]; ok {
			return s
		}
		if retiredStores[st] {
			return nil
		}
	}
	return pending
}

// Store trace (direction B, TraceStore.tla): when VERIF_STORE_TRACE names a directory, every
// footer swap of every store this process opens is written there as one ndjson record.
var (
	storeTraceMu  sync.Mutex
	storeTraceEnc *json.Encoder
	storeTraceIDs = map[*moss.Store]int{}
)

func storeTraceInit() {
	dir := os.Getenv("VERIF_STORE_TRACE")
	if dir == "" {
		return
	}
	f, err := os.Create(fmt.Sprintf("%s/store-%d.ndjson", dir, os.Getpid()))
	if err == nil {
		storeTraceEnc = json.NewEncoder(f)
	}
}

func storeTraceEvent(info moss.VerifInfo) {
	if storeTraceEnc == nil {
		return
	}
	ev := map[string]string{"store.open": "new", "store.persist.swap": "persist", "store.compact.swap": "compact", "store.revert.swap": "revert"}[info.Point]
	if ev == "" {
		return
	}
	storeTraceMu.Lock()
	defer storeTraceMu.Unlock()
	id, ok := storeTraceIDs[info.Store]
	if !ok {
		id = len(storeTraceIDs) + 1
		storeTraceIDs[info.Store] = id
	}
	splice := 0
	if len(info.Extra) > 0 {
		if n, ok := info.Extra[0].(int); ok {
			splice = n
		}
	}
	storeTraceEnc.Encode(map[string]interface{}{"ev": ev, "s": id, "new": !ok, "file": info.FileName, "pos": info.FooterPos, "prev": info.PrevPos,
		"nsl": info.NumSlocs, "pers": info.Persists, "comp": info.Compacts, "comppt": info.CompactsPt, "splice": splice})
}

// NewSched creates a scheduler; until Bind is called it receives the
// hook calls of any collection not yet registered (the one being opened).
func NewSched() *Sched {
	s := &Sched{permits: map[string]int{}, open: map[string]bool{}, parked: map[string]int{}}
	s.cond = sync.NewCond(&s.mu)
	regMu.Lock()
	pending = s
	regMu.Unlock()
	return s
}

// Bind associates the scheduler with an opened collection / store.
func (s *Sched) Bind(c moss.Collection, st *moss.Store) {
	regMu.Lock()
	if c != nil {
		registry[c] = s
	}
	if st != nil {
		storeReg[st] = s
	}
	s.coll, s.store = c, st
	if pending == s {
		pending = nil // from now on only the bound collection / store reaches this scheduler
	}
	regMu.Unlock()
}

// Unbind removes the scheduler from the registry.
func (s *Sched) Unbind() {
	regMu.Lock()
	for c, x := range registry {
		if x == s {
			delete(registry, c)
			retired[c] = true
		}
	}
	for c, x := range storeReg {
		if x == s {
			delete(storeReg, c)
			retiredStores[c] = true
		}
	}
	if pending == s {
		pending = nil
	}
	regMu.Unlock()
}

func (s *Sched) record(info moss.VerifInfo) {
	globalMu.Lock()
	globalSeq++
	seq := globalSeq
	globalMu.Unlock()
	s.mu.Lock()
	s.events = append(s.events, Event{Seq: seq, Info: info})
	s.cond.Broadcast()
	s.mu.Unlock()
}

func (s *Sched) gate(point string) {
	s.mu.Lock()
	parked := false
	for {
		if s.allOpen || s.open[point] {
			break
		}
		if s.permits[point] > 0 {
			s.permits[point]--
			break
		}
		if !parked { // announce once; re-announcing on every wake-up makes parked goroutines wake each other forever
			parked = true
			s.parked[point]++
			s.cond.Broadcast()
		}
		s.cond.Wait()
	}
	if parked {
		s.parked[point]--
	}
	s.mu.Unlock()
}

// Open makes a gate pass-through.
func (s *Sched) Open(points ...string) {
	s.mu.Lock()
	for _, p := range points {
		s.open[p] = true
	}
	s.cond.Broadcast()
	s.mu.Unlock()
}

// OpenAll releases every gate for good (used when tearing down).
func (s *Sched) OpenAll() {
	s.mu.Lock()
	s.allOpen = true
	s.cond.Broadcast()
	s.mu.Unlock()
}

// Release lets one goroutine pass the gate.
func (s *Sched) Release(point string) {
	s.mu.Lock()
	s.permits[point]++
	s.cond.Broadcast()
	s.mu.Unlock()
}

func (s *Sched) waitFor(pred func() bool, d time.Duration) bool {
	deadline := time.Now().Add(d)
	timer := time.AfterFunc(d, func() {
		s.mu.Lock()
		s.cond.Broadcast()
		s.mu.Unlock()
	})
	defer timer.Stop()
	s.mu.Lock()
	defer s.mu.Unlock()
	for !pred() {
		if time.Now().After(deadline) {
			return false
		}
		s.cond.Wait()
	}
	return true
}

// AwaitParked waits until a goroutine is parked at the gate.
func (s *Sched) AwaitParked(point string, d time.Duration) error {
	if !s.waitFor(func() bool { return s.parked[point] > 0 }, d) {
		return fmt.Errorf("timeout waiting for a goroutine to park at %s (%s)", point, s.describeLocked())
	}
	return nil
}

// Mark returns the current position in the event log.
func (s *Sched) Mark() int {
	s.mu.Lock()
	defer s.mu.Unlock()
	return len(s.events)
}

// AwaitEvent waits for an event with one of the given points at or
// after position from; it returns the event.
func (s *Sched) AwaitEvent(from int, d time.Duration, points ...string) (Event, error) {
	var found Event
	ok := s.waitFor(func() bool {
		for i := from; i < len(s.events); i++ {
			for _, p := range points {
				if s.events[i].Info.Point == p {
					found = s.events[i]
					return true
				}
			}
		}
		return false
	}, d)
	if !ok {
		return found, fmt.Errorf("timeout waiting for event %v (%s)", points, s.describeLocked())
	}
	return found, nil
}

// Events returns a copy of the event log.
func (s *Sched) Events() []Event {
	s.mu.Lock()
	defer s.mu.Unlock()
	return append([]Event(nil), s.events...)
}

func (s *Sched) describeLocked() string {
	// caller does not hold the lock
	s.mu.Lock()
	defer s.mu.Unlock()
	last := ""
	from := len(s.events) - 14
	if from < 0 {
		from = 0
	}
	for _, e := range s.events[from:] {
		last += fmt.Sprintf(" %s[%d,%d,%d]", e.Info.Point, e.Info.Top, e.Info.Mid, e.Info.Base)
	}
	return fmt.Sprintf("parked=%v permits=%v lastEvents=%s nEvents=%d", s.parked, s.permits, last, len(s.events))
}

// NextSeq hands out a sequence number from the same counter the hook
// events use (for call/return events of drivers).
func NextSeq() uint64 {
	globalMu.Lock()
	globalSeq++
	v := globalSeq
	globalMu.Unlock()
	return v
}
