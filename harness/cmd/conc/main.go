// Command conc runs free-running concurrent workloads against the real
// library (N writers on disjoint keys, M snapshot readers, Collection.Get
// readers, notifiers, optionally a closer; merger, persister and compactor
// un-gated) with the verif tracer on, and writes one ndjson trace per run:
// hook events (sequence numbers taken under the lock that protects the
// change) interleaved with the driver's call/return events (sequence numbers
// from the same counter).  The traces are validated by TLC against
// specs/TraceVis.tla (C03) and specs/TraceSync.tla (C16): direction B.
package main

import (
	"encoding/json"
	"flag"
	"fmt"
	"io/ioutil"
	"math/rand"
	"os"
	"runtime"
	"sort"
	"strconv"
	"sync"
	"sync/atomic"
	"time"

	"github.com/couchbase/moss"
	"verifharness/internal/h"
)

type cfg struct {
	Mode      string `json:"mode"` // mem | store
	Writers   int    `json:"writers"`
	Readers   int    `json:"readers"`
	Getters   int    `json:"getters"`
	Notifiers int    `json:"notifiers"`
	Batches   int    `json:"batches"`
	Payload   int    `json:"payload"`
	MixKids   bool   `json:"mixKids"` // with kids: batch i touches only the child collection (i%3 = 0), only the top level (1), or both (2)
	Filler    int    `json:"filler"` // extra keys per batch, put in shuffled order (a long deferred sort for readers to race with)
	MaxPre    int    `json:"maxPre"`
	Kids      bool   `json:"kids"`
	Closer    bool   `json:"closer"`   // close the collection at a random moment (C16)
	SlowLL    int    `json:"slowLL"`   // app lower level: milliseconds per update (0: mossStore / none)
	FailLL    int    `json:"failLL"`   // app lower level: fail every n-th update
	MaxDirty  int    `json:"maxDirty"` // MaxDirtyOps
	Compact   string `json:"compaction"`
	Deferred  bool   `json:"deferredSort"`
	Seed      int64  `json:"seed"`
}

type ev map[string]interface{}

type recorder struct {
	mu  sync.Mutex
	evs []ev
}

func (r *recorder) add(e ev) {
	e["seq"] = h.NextSeq()
	r.mu.Lock()
	r.evs = append(r.evs, e)
	r.mu.Unlock()
}

func key(w int, name string) []byte { return []byte(fmt.Sprintf("w%02d/%s", w, name)) }

// readVec reads, for every writer, the marker and all payload keys (and the
// child collection entries); the entry is the common sequence number, or -1
// when the keys of one writer disagree (a torn batch).
func readVec(ss moss.Snapshot, c cfg) ([]int, string) {
	vec := make([]int, c.Writers)
	detail := ""
	var kid moss.Snapshot
	if c.Kids {
		kid, _ = ss.ChildCollectionSnapshot("kid")
	}
	for w := 0; w < c.Writers; w++ {
		vals := []string{}
		get := func(s moss.Snapshot, k []byte) {
			if s == nil {
				vals = append(vals, "")
				return
			}
			v, err := s.Get(k, moss.ReadOptions{})
			if err != nil {
				vals = append(vals, "err:"+err.Error())
				return
			}
			vals = append(vals, string(v))
		}
		get(ss, key(w, "seq"))
		for j := 0; j < c.Payload; j++ {
			get(ss, key(w, "p"+strconv.Itoa(j)))
		}
		if c.Kids {
			get(kid, key(w, "seq"))
		}
		same := true
		n := 0
		if c.Kids && c.MixKids {
			// the writer's last batch is the larger of the two markers; both markers must be what that
			// prefix of its batches leaves (top level: last batch with i%3 != 0, child: last with i%3 != 1)
			atoi := func(x string) int { v, _ := strconv.Atoi(x); return v }
			top, kd := atoi(vals[0]), atoi(vals[len(vals)-1])
			n = top
			if kd > n {
				n = kd
			}
			wantTop, wantKid := n, n
			for wantTop > 0 && wantTop%3 == 0 {
				wantTop--
			}
			for wantKid > 0 && wantKid%3 == 1 {
				wantKid--
			}
			same = top == wantTop && kd == wantKid
			for _, v := range vals[:len(vals)-1] {
				if v != vals[0] {
					same = false
				}
			}
		} else {
			for _, v := range vals {
				if v != vals[0] {
					same = false
				}
			}
			if vals[0] != "" {
				n, _ = strconv.Atoi(vals[0])
			}
		}
		if !same {
			n = -1
			detail += fmt.Sprintf("writer %d: %q; ", w, vals)
		}
		vec[w] = n
	}
	if kid != nil {
		kid.Close()
	}
	return vec, detail
}

func main() {
	cfgJSON := flag.String("cfg", "{}", "workload configuration (JSON)")
	out := flag.String("out", "", "trace file (ndjson)")
	flag.Parse()
	c := cfg{Mode: "mem", Writers: 2, Readers: 1, Batches: 20, Payload: 2, MaxPre: 1}
	if err := json.Unmarshal([]byte(*cfgJSON), &c); err != nil {
		fmt.Fprintln(os.Stderr, "bad cfg:", err)
		os.Exit(2)
	}
	rng := rand.New(rand.NewSource(c.Seed))
	h.Install()
	sched := h.NewSched()
	sched.OpenAll() // free running: no gate is ever closed
	rec := &recorder{}

	var onErr int64
	co := moss.CollectionOptions{
		MaxPreMergerBatches: c.MaxPre,
		MaxDirtyOps:         uint64(c.MaxDirty),
		DeferredSort:        c.Deferred,
		OnError:             func(error) { atomic.AddInt64(&onErr, 1) },
	}
	var coll moss.Collection
	var store *moss.Store
	var dir string
	var err error
	var app *h.AppStore
	switch {
	case c.Mode == "store":
		dir, err = ioutil.TempDir(os.Getenv("VERIF_SCRATCH"), "conc")
		if err == nil {
			so := moss.StoreOptions{CollectionOptions: co, CompactionLevelMaxSegments: 2, CompactionLevelMultiplier: 2}
			po := moss.StorePersistOptions{}
			switch c.Compact {
			case "allow":
				po.CompactionConcern = moss.CompactionAllow
			case "force":
				po.CompactionConcern = moss.CompactionForce
			}
			store, coll, err = moss.OpenStoreCollection(dir, so, po)
		}
	case c.Mode == "app":
		app = h.NewAppStore()
		var n int64
		app.Gate = func() {
			if c.SlowLL > 0 {
				time.Sleep(time.Duration(c.SlowLL) * time.Millisecond)
			}
			if c.FailLL > 0 && atomic.AddInt64(&n, 1)%int64(c.FailLL) == 0 {
				app.FailOnce()
			}
		}
		co.LowerLevelUpdate = app.Update
		coll, err = moss.NewCollection(co)
		if err == nil {
			err = coll.Start()
		}
	default:
		coll, err = moss.NewCollection(co)
		if err == nil {
			err = coll.Start()
		}
	}
	if err != nil {
		fmt.Fprintln(os.Stderr, "open:", err)
		os.Exit(2)
	}
	sched.Bind(coll, store)
	defer func() {
		if dir != "" {
			os.RemoveAll(dir)
		}
	}()

	// batches under construction, so that exec.push events can be attributed
	var bmu sync.Mutex
	batchOwner := map[interface{}][2]int{}

	var wg sync.WaitGroup
	var closed int32
	stopReaders := make(chan struct{})
	type pend struct {
		who  string
		op   string
		t0   time.Time
		done *int32
	}
	var pmu sync.Mutex
	pending := map[int]*pend{}
	pid := 0
	begin := func(who, op string) (int, *int32) {
		d := new(int32)
		pmu.Lock()
		pid++
		id := pid
		pending[id] = &pend{who, op, time.Now(), d}
		pmu.Unlock()
		return id, d
	}
	end := func(id int) {
		pmu.Lock()
		delete(pending, id)
		pmu.Unlock()
	}

	for w := 0; w < c.Writers; w++ {
		wg.Add(1)
		go func(w int) {
			defer wg.Done()
			for i := 1; i <= c.Batches; i++ {
				b, err := coll.NewBatch(0, 0)
				if err != nil {
					rec.add(ev{"ev": "newbatch", "w": w, "i": i, "err": err.Error(), "closedBefore": atomic.LoadInt32(&closed) == 2})
					return
				}
				v := []byte(strconv.Itoa(i))
				mix := c.Kids && c.MixKids
				if !mix || i%3 != 0 {
					b.Set(key(w, "seq"), v)
					for j := 0; j < c.Payload; j++ {
						b.Set(key(w, "p"+strconv.Itoa(j)), v)
					}
				}
				if c.Filler > 0 {
					for _, j := range rand.New(rand.NewSource(c.Seed + int64(w*1000+i))).Perm(c.Filler) {
						b.Set(key(w, "f"+strconv.Itoa(j)), v)
					}
				}
				if c.Kids && (!mix || i%3 != 1) {
					cb, _ := b.NewChildCollectionBatch("kid", moss.BatchOptions{})
					cb.Set(key(w, "seq"), v)
				}
				bmu.Lock()
				batchOwner[interface{}(b)] = [2]int{w, i}
				bmu.Unlock()
				wasClosed := atomic.LoadInt32(&closed) == 2
				rec.add(ev{"ev": "call", "op": "exec", "w": w, "i": i})
				id, _ := begin(fmt.Sprintf("writer %d", w), "ExecuteBatch")
				err = coll.ExecuteBatch(b, moss.WriteOptions{})
				end(id)
				e := ev{"ev": "ret", "op": "exec", "w": w, "i": i, "closedBefore": wasClosed}
				if err != nil {
					e["err"] = err.Error()
				}
				rec.add(e)
				b.Close()
				if err != nil {
					return
				}
			}
		}(w)
	}
	var snapID int64
	for r := 0; r < c.Readers; r++ {
		wg.Add(1)
		go func(r int) {
			defer wg.Done()
			lr := rand.New(rand.NewSource(c.Seed*100 + int64(r)))
			for {
				select {
				case <-stopReaders:
					return
				default:
				}
				wasClosed := atomic.LoadInt32(&closed) == 2
				id := int(atomic.AddInt64(&snapID, 1))
				rec.add(ev{"ev": "call", "op": "snap", "r": r, "id": id})
				pidn, _ := begin(fmt.Sprintf("reader %d", r), "Snapshot")
				ss, err := coll.Snapshot()
				end(pidn)
				if err != nil {
					rec.add(ev{"ev": "ret", "op": "snap", "r": r, "id": id, "err": err.Error(), "closedBefore": wasClosed})
					if err == moss.ErrClosed {
						return
					}
					continue
				}
				rec.add(ev{"ev": "ret", "op": "snap", "r": r, "id": id, "ptr": fmt.Sprintf("%p", ss), "closedBefore": wasClosed})
				// read now, and once more after a random pause (C02 under concurrency)
				vec, detail := readVec(ss, c)
				e := ev{"ev": "read", "id": id, "vec": vec}
				if detail != "" {
					e["torn"] = detail
				}
				rec.add(e)
				if lr.Intn(3) == 0 {
					time.Sleep(time.Duration(lr.Intn(2000)) * time.Microsecond)
					vec2, detail2 := readVec(ss, c)
					e := ev{"ev": "read", "id": id, "vec": vec2}
					if detail2 != "" {
						e["torn"] = detail2
					}
					rec.add(e)
				}
				ss.Close()
				runtime.Gosched()
			}
		}(r)
	}
	for g := 0; g < c.Getters; g++ {
		wg.Add(1)
		go func(g int) {
			defer wg.Done()
			lr := rand.New(rand.NewSource(c.Seed*1000 + int64(g)))
			for {
				select {
				case <-stopReaders:
					return
				default:
				}
				w := lr.Intn(c.Writers)
				wasClosed := atomic.LoadInt32(&closed) == 2
				rec.add(ev{"ev": "call", "op": "get", "g": g, "w": w})
				pidn, _ := begin(fmt.Sprintf("getter %d", g), "Get")
				v, err := coll.Get(key(w, "seq"), moss.ReadOptions{})
				end(pidn)
				e := ev{"ev": "ret", "op": "get", "g": g, "w": w, "closedBefore": wasClosed}
				if err != nil {
					e["err"] = err.Error()
					rec.add(e)
					if err == moss.ErrClosed {
						return
					}
					continue
				}
				n := 0
				if v != nil {
					n, _ = strconv.Atoi(string(v))
				}
				e["val"] = n
				rec.add(e)
				runtime.Gosched()
			}
		}(g)
	}
	for n := 0; n < c.Notifiers; n++ {
		wg.Add(1)
		go func(n int) {
			defer wg.Done()
			lr := rand.New(rand.NewSource(c.Seed*10000 + int64(n)))
			nm := coll.(h.Notifier)
			for k := 0; k < 40; k++ {
				select {
				case <-stopReaders:
					return
				default:
				}
				if atomic.LoadInt32(&closed) != 0 {
					return // the documentation does not promise anything for notifications racing with Close
				}
				syncN := lr.Intn(2) == 0
				kind := []string{"mergeAll", "poke"}[lr.Intn(2)]
				rec.add(ev{"ev": "call", "op": "notify", "n": n, "sync": syncN})
				pidn, _ := begin(fmt.Sprintf("notifier %d", n), "NotifyMerger")
				nm.NotifyMerger(kind, syncN)
				end(pidn)
				rec.add(ev{"ev": "ret", "op": "notify", "n": n, "sync": syncN})
				time.Sleep(time.Duration(lr.Intn(500)) * time.Microsecond)
			}
		}(n)
	}
	writersDone := make(chan struct{})
	go func() {
		// writers are the first c.Writers members of the group; poll their completion through the trace
		for {
			time.Sleep(time.Millisecond)
			rec.mu.Lock()
			n := 0
			for _, e := range rec.evs {
				if e["ev"] == "ret" && e["op"] == "exec" && (e["err"] != nil || e["i"] == c.Batches) {
					n++
				}
				if e["ev"] == "newbatch" {
					n++
				}
			}
			rec.mu.Unlock()
			if n >= c.Writers {
				close(writersDone)
				return
			}
		}
	}()
	closeAt := time.Duration(0)
	if c.Closer {
		closeAt = time.Duration(1+rng.Intn(30)) * time.Millisecond
	}
	hang := ""
	watchdog := func(d time.Duration, what string) bool {
		select {
		case <-writersDone:
			return true
		case <-time.After(d):
			hang = what
			return false
		}
	}
	doClose := func() {
		atomic.StoreInt32(&closed, 1)
		rec.add(ev{"ev": "call", "op": "close"})
		id, _ := begin("closer", "Close")
		coll.Close()
		end(id)
		atomic.StoreInt32(&closed, 2)
		rec.add(ev{"ev": "ret", "op": "close"})
	}
	ok := true
	if c.Closer {
		select {
		case <-writersDone:
		case <-time.After(closeAt):
		}
		cd := make(chan struct{})
		go func() { doClose(); close(cd) }()
		select {
		case <-cd:
		case <-time.After(20 * time.Second):
			hang = "Close did not return"
			ok = false
		}
		if ok {
			ok = watchdog(20*time.Second, "a writer did not return after Close")
		}
	} else {
		ok = watchdog(60*time.Second, "writers did not finish")
	}
	close(stopReaders)
	if ok {
		fin := make(chan struct{})
		go func() { wg.Wait(); close(fin) }()
		select {
		case <-fin:
		case <-time.After(20 * time.Second):
			hang = "a reader / getter / notifier did not return"
			ok = false
		}
	}
	if ok && !c.Closer {
		// final snapshot: every writer's last batch must be visible
		id := int(atomic.AddInt64(&snapID, 1))
		rec.add(ev{"ev": "call", "op": "snap", "r": -1, "id": id})
		ss, err := coll.Snapshot()
		if err == nil {
			rec.add(ev{"ev": "ret", "op": "snap", "r": -1, "id": id, "ptr": fmt.Sprintf("%p", ss)})
			vec, detail := readVec(ss, c)
			e := ev{"ev": "read", "id": id, "vec": vec}
			if detail != "" {
				e["torn"] = detail
			}
			rec.add(e)
			ss.Close()
		}
		cd := make(chan struct{})
		go func() { doClose(); close(cd) }()
		select {
		case <-cd:
		case <-time.After(20 * time.Second):
			hang = "Close did not return"
			ok = false
		}
	}
	if ok && store != nil {
		store.Close()
	}

	// merge hook events and driver events by sequence number
	all := rec.evs
	for _, e := range sched.Events() {
		x := ev{"seq": e.Seq, "ev": "hook", "point": e.Info.Point, "top": e.Info.Top, "mid": e.Info.Mid, "base": e.Info.Base,
			"clean": e.Info.Clean, "closed": e.Info.Closed, "pings": e.Info.Pings}
		switch e.Info.Point {
		case "exec.push":
			if len(e.Info.Extra) > 0 {
				bmu.Lock()
				if o, found := batchOwner[e.Info.Extra[0]]; found {
					x["w"], x["i"] = o[0], o[1]
				}
				bmu.Unlock()
			}
		case "coll.snapshot":
			if len(e.Info.Extra) > 0 {
				x["ptr"] = fmt.Sprintf("%p", e.Info.Extra[0])
			}
		}
		all = append(all, x)
	}
	sort.Slice(all, func(i, j int) bool { return all[i]["seq"].(uint64) < all[j]["seq"].(uint64) })
	summary := ev{"ev": "summary", "hang": hang, "events": len(all), "onError": atomic.LoadInt64(&onErr), "cfg": c}
	if hang != "" {
		pmu.Lock()
		var who []string
		for _, p := range pending {
			who = append(who, fmt.Sprintf("%s in %s for %v", p.who, p.op, time.Since(p.t0).Round(time.Millisecond)))
		}
		pmu.Unlock()
		sort.Strings(who)
		summary["pending"] = who
		buf := make([]byte, 1<<20)
		buf = buf[:runtime.Stack(buf, true)]
		summary["goroutines"] = string(buf)
	}
	f, err := os.Create(*out)
	if err != nil {
		fmt.Fprintln(os.Stderr, err)
		os.Exit(2)
	}
	enc := json.NewEncoder(f)
	for _, e := range all {
		enc.Encode(e)
	}
	enc.Encode(summary)
	f.Close()
	if hang != "" {
		os.Exit(3)
	}
}
