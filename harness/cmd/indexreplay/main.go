// Command indexreplay runs the (key set, index quota, probe) cases TLC
// enumerated from MossIndex against persisted segments of the real store:
// the same directory is opened with the case's index quota and with indexing
// disabled, and every probe Get, range start and range end must agree with
// each other and with the position TLC computed.
package main

import (
	"bufio"
	"encoding/json"
	"flag"
	"fmt"
	"io/ioutil"
	"os"
	"time"

	"github.com/couchbase/moss"
	"verifharness/internal/h"
)

type look struct {
	Probe []int `json:"probe"`
	Pos   int   `json:"pos"`
	Start int   `json:"start"`
	W     []int `json:"w"`
}
type icase struct {
	Keys  [][]int `json:"keys"`
	Quota int     `json:"quota"`
	Shape struct {
		Indexed   int  `json:"indexed"`
		Hop       int  `json:"hop"`
		Truncated bool `json:"truncated"`
	} `json:"shape"`
	Look []look `json:"look"`
}

func conc(k []int, scale int) []byte {
	out := []byte{}
	for _, l := range k {
		for i := 0; i < scale; i++ {
			out = append(out, byte('a'+l-1))
		}
	}
	return out
}

var fill int // filler keys inserted right after every model key (key + 0x00 + counter)

func persist(dir string, c icase, scale int) error {
	st, coll, err := moss.OpenStoreCollection(dir, moss.StoreOptions{}, moss.StorePersistOptions{})
	if err != nil {
		return err
	}
	b, _ := coll.NewBatch(0, 0)
	for i, k := range c.Keys {
		b.Set(conc(k, scale), []byte(fmt.Sprintf("val%d", i)))
		for j := 0; j < fill; j++ {
			b.Set(append(conc(k, scale), 0, byte(j/250), byte(j%250)), []byte("filler"))
		}
	}
	if err := coll.ExecuteBatch(b, moss.WriteOptions{}); err != nil {
		return err
	}
	b.Close()
	deadline := time.Now().Add(20 * time.Second)
	for {
		cs, _ := coll.Stats()
		if cs != nil && cs.TotPersisterLowerLevelUpdateEnd > 0 && cs.CurDirtyOps == 0 && cs.CurDirtySegments == 0 {
			break
		}
		if time.Now().After(deadline) {
			return fmt.Errorf("timeout waiting for persistence")
		}
		time.Sleep(200 * time.Microsecond)
	}
	coll.Close()
	return st.Close()
}

func probeAll(dir string, c icase, quota int, scale int) (res []string, err error) {
	so := moss.StoreOptions{SegmentKeysIndexMaxBytes: quota, SegmentKeysIndexMinKeyBytes: 1}
	st, err := moss.OpenStore(dir, so)
	if err != nil {
		return nil, err
	}
	defer st.Close()
	ss, err := st.Snapshot()
	if err != nil {
		return nil, err
	}
	defer ss.Close()
	for _, l := range c.Look {
		p := conc(l.Probe, scale)
		v, err := ss.Get(p, moss.ReadOptions{})
		if err != nil {
			return nil, err
		}
		first := "done"
		it, err := ss.StartIterator(p, nil, moss.IteratorOptions{})
		if err != nil {
			return nil, err
		}
		if k, _, e := it.Current(); e == nil {
			first = string(k)
		}
		it.Close()
		n := 0
		it, err = ss.StartIterator(nil, p, moss.IteratorOptions{})
		if err != nil {
			return nil, err
		}
		for {
			if _, _, e := it.Current(); e != nil {
				break
			}
			n++
			if it.Next() != nil {
				break
			}
		}
		it.Close()
		res = append(res, fmt.Sprintf("get=%q from=%s below=%d", v, first, n))
	}
	return
}

func main() {
	behFile := flag.String("beh", "", "cases, one JSON object per line")
	dimsJSON := flag.String("dims", "{}", "{\"scale\": n}: repeat every letter n times (realistic key sizes)")
	shard := flag.Int("shard", 0, "")
	nshards := flag.Int("nshards", 1, "")
	flag.Parse()
	var d struct {
		Scale int `json:"scale"`
		Fill  int `json:"fill"`
	}
	json.Unmarshal([]byte(*dimsJSON), &d)
	fill = d.Fill
	if d.Scale <= 0 {
		d.Scale = 1
	}
	f, err := os.Open(*behFile)
	if err != nil {
		fmt.Fprintln(os.Stderr, err)
		os.Exit(2)
	}
	defer f.Close()
	sc := bufio.NewScanner(f)
	sc.Buffer(make([]byte, 1<<20), 1<<28)
	out := bufio.NewWriter(os.Stdout)
	defer out.Flush()
	enc := json.NewEncoder(out)
	id := -1
	for sc.Scan() {
		id++
		if id%*nshards != *shard {
			continue
		}
		var c icase
		if err := json.Unmarshal(sc.Bytes(), &c); err != nil {
			enc.Encode(h.Result{ID: id, Status: "infra", Infra: "bad case: " + err.Error()})
			continue
		}
		res := h.Result{ID: id, Status: "ok"}
		dir, err := ioutil.TempDir(os.Getenv("VERIF_SCRATCH"), "index")
		if err != nil {
			res.Status, res.Infra = "infra", err.Error()
			enc.Encode(res)
			continue
		}
		func() {
			defer os.RemoveAll(dir)
			if err := persist(dir, c, d.Scale); err != nil {
				res.Status, res.Infra = "infra", err.Error()
				return
			}
			// the model's quota is in bytes of unscaled keys; scale it with the keys
			withIdx, err := probeAll(dir, c, c.Quota*d.Scale*(fill+1), d.Scale)
			if err != nil {
				res.Status, res.Infra = "infra", "open with index: "+err.Error()
				return
			}
			noIdx, err := probeAll(dir, c, -1, d.Scale)
			if err != nil {
				res.Status, res.Infra = "infra", "open without index: "+err.Error()
				return
			}
			sr := h.StepResult{Step: 0, Act: "probe"}
			for i, l := range c.Look {
				want := "get=\"\""
				if l.Pos >= 0 {
					want = fmt.Sprintf("get=%q", fmt.Sprintf("val%d", l.Pos))
				}
				from := "done"
				if l.Start < len(c.Keys) {
					from = string(conc(c.Keys[l.Start], d.Scale))
				}
				want = fmt.Sprintf("%s from=%s below=%d", want, from, l.Start*(fill+1))
				if withIdx[i] != noIdx[i] {
					sr.Mismatches = append(sr.Mismatches, h.Mismatch{What: "index.differs", Key: i, Got: withIdx[i], Want: noIdx[i] + " (index disabled)"})
				}
				if withIdx[i] != want {
					sr.Mismatches = append(sr.Mismatches, h.Mismatch{What: "index.lookup", Key: i, Got: withIdx[i], Want: want})
				}
			}
			if len(sr.Mismatches) > 0 {
				res.Status = "mismatch"
				res.Steps = append(res.Steps, sr)
			}
			res.Shapes = []string{fmt.Sprintf("indexed=%d hop=%d truncated=%v", c.Shape.Indexed, c.Shape.Hop, c.Shape.Truncated)}
		}()
		enc.Encode(res)
	}
}
