// Command storereplay drives TLC-generated behaviours of MossStore (rounds,
// I/O failures, crashes with their disk images, history walks, reverts,
// read-only opens) through the real mossStore.
package main

import (
	"bufio"
	"encoding/json"
	"flag"
	"fmt"
	"os"

	"verifharness/internal/h"
)

func main() {
	behFile := flag.String("beh", "", "file with one behaviour per line")
	dimsJSON := flag.String("dims", "{}", "harness dimensions (JSON)")
	shard := flag.Int("shard", 0, "shard index")
	nshards := flag.Int("nshards", 1, "number of shards")
	variants := flag.Int("variants", 1, "number of fault / tear variants to try per behaviour")
	flag.Parse()
	var d h.StoreDims
	if err := json.Unmarshal([]byte(*dimsJSON), &d); err != nil {
		fmt.Fprintln(os.Stderr, "bad dims:", err)
		os.Exit(2)
	}
	f, err := os.Open(*behFile)
	if err != nil {
		fmt.Fprintln(os.Stderr, err)
		os.Exit(2)
	}
	defer f.Close()
	sc := bufio.NewScanner(f)
	sc.Buffer(make([]byte, 1<<20), 1<<28)
	out := bufio.NewWriter(os.Stdout)
	defer out.Flush()
	enc := json.NewEncoder(out)
	id := -1
	for sc.Scan() {
		id++
		if id%*nshards != *shard {
			continue
		}
		var steps []h.StoreStep
		if err := json.Unmarshal(sc.Bytes(), &steps); err != nil {
			enc.Encode(h.Result{ID: id, Status: "infra", Infra: "bad behaviour: " + err.Error()})
			continue
		}
		for v := 0; v < *variants; v++ {
			dd := d
			dd.Variant = v
			enc.Encode(h.Result{ID: id, Status: "started", Variant: v})
			out.Flush()
			res := h.ReplayStore(id, dd, steps)
			res.Variant = v
			if res.Status == "end" {
				break
			}
			if res.Status == "skip" { // not a legal crash image of the recorded trace (independent of the variant)
				enc.Encode(h.Result{ID: id, Status: "skip"})
				break
			}
			enc.Encode(res)
		}
	}
}
