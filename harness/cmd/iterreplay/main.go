// Command iterreplay runs TLC-generated iterator programs of MossIter
// against iterators of the real library.
package main

import (
	"bufio"
	"encoding/json"
	"flag"
	"fmt"
	"os"

	"verifharness/internal/h"
)

func main() {
	behFile := flag.String("beh", "", "file with one behaviour per line")
	dimsJSON := flag.String("dims", "{}", "harness dimensions (JSON)")
	shard := flag.Int("shard", 0, "shard index")
	nshards := flag.Int("nshards", 1, "number of shards")
	flag.Parse()
	var d h.IterDims
	if err := json.Unmarshal([]byte(*dimsJSON), &d); err != nil {
		fmt.Fprintln(os.Stderr, "bad dims:", err)
		os.Exit(2)
	}
	f, err := os.Open(*behFile)
	if err != nil {
		fmt.Fprintln(os.Stderr, err)
		os.Exit(2)
	}
	defer f.Close()
	sc := bufio.NewScanner(f)
	sc.Buffer(make([]byte, 1<<20), 1<<28)
	out := bufio.NewWriter(os.Stdout)
	defer out.Flush()
	enc := json.NewEncoder(out)
	id := -1
	for sc.Scan() {
		id++
		if id%*nshards != *shard {
			continue
		}
		var calls []h.IterCall
		if err := json.Unmarshal(sc.Bytes(), &calls); err != nil {
			enc.Encode(h.Result{ID: id, Status: "infra", Infra: "bad behaviour: " + err.Error()})
			continue
		}
		enc.Encode(h.ReplayIter(id, d, calls))
	}
}
