// Command replay drives TLC-generated behaviours of MossColl through the
// real moss library (direction A of DESIGN.md) and reports every
// difference between what the implementation returns and what TLC expects.
package main

import (
	"bufio"
	"encoding/json"
	"flag"
	"fmt"
	"os"

	"verifharness/internal/h"
)

func main() {
	behFile := flag.String("beh", "", "file with one behaviour (JSON array of steps) per line")
	dimsJSON := flag.String("dims", "{}", "harness dimensions (JSON)")
	shard := flag.Int("shard", 0, "shard index")
	nshards := flag.Int("nshards", 1, "number of shards")
	flag.Parse()

	var d h.Dims
	if err := json.Unmarshal([]byte(*dimsJSON), &d); err != nil {
		fmt.Fprintln(os.Stderr, "bad dims:", err)
		os.Exit(2)
	}
	f, err := os.Open(*behFile)
	if err != nil {
		fmt.Fprintln(os.Stderr, err)
		os.Exit(2)
	}
	defer f.Close()
	sc := bufio.NewScanner(f)
	sc.Buffer(make([]byte, 1<<20), 1<<28)
	out := bufio.NewWriter(os.Stdout)
	defer out.Flush()
	enc := json.NewEncoder(out)
	id := -1
	for sc.Scan() {
		id++
		if id%*nshards != *shard {
			continue
		}
		var steps []h.Step
		if err := json.Unmarshal(sc.Bytes(), &steps); err != nil {
			enc.Encode(h.Result{ID: id, Status: "infra", Infra: "bad behaviour: " + err.Error()})
			continue
		}
		// (a marker first: if the library takes the process down, the driver knows during which behaviour)
		enc.Encode(h.Result{ID: id, Status: "started"})
		out.Flush()
		res := h.Replay(id, d, steps)
		enc.Encode(res)
	}
}
