// Command syncscen replays, with the verif gates, the schedules of the
// counterexamples TLC finds in MossSync when a named deviation is switched on
// (direction A for C16).  A scenario reports "hang" when an API call does not
// return although the lower level makes progress; the goroutine dump is the
// replay artefact.
//
//	l10: the persister notifies the merger with a blocking channel send while it
//	     holds the collection mutex, the ping channel is full and the merger
//	     needs the mutex (MossSync deviation PersisterNotifyBlocksUnderLock).
//	l24: a synchronous NotifyMerger whose ping is still queued when Close() stops
//	     the merger is never answered (deviation ExitIgnoresQueuedPings).
package main

import (
	"encoding/json"
	"flag"
	"os"
	"runtime"
	"time"

	"github.com/couchbase/moss"
	"verifharness/internal/h"
)

const wait = 10 * time.Second

type result struct {
	Scenario string `json:"scenario"`
	Trial    int    `json:"trial"`
	Status   string `json:"status"` // ok | hang | infra
	Detail   string `json:"detail,omitempty"`
	Dump     string `json:"dump,omitempty"`
}

func dump() string {
	buf := make([]byte, 1<<20)
	return string(buf[:runtime.Stack(buf, true)])
}

func must(err error, what string) {
	if err != nil {
		json.NewEncoder(os.Stdout).Encode(result{Status: "infra", Detail: what + ": " + err.Error()})
		os.Exit(0)
	}
}

func timed(f func()) bool {
	done := make(chan struct{})
	go func() { f(); close(done) }()
	select {
	case <-done:
		return true
	case <-time.After(3 * time.Second):
		return false
	}
}

func batch(c moss.Collection, k, v string) {
	b, err := c.NewBatch(0, 0)
	must(err, "NewBatch")
	b.Set([]byte(k), []byte(v))
	must(c.ExecuteBatch(b, moss.WriteOptions{}), "ExecuteBatch")
	b.Close()
}

func l10(trial int) result {
	r := result{Scenario: "l10", Trial: trial, Status: "ok"}
	h.Install()
	sc := h.NewSched()
	sc.Open("exec.beforeLock", "close.beforeWait")
	app := h.NewAppStore()
	coll, err := moss.NewCollection(moss.CollectionOptions{MaxPreMergerBatches: 4, MergerIdleRunTimeoutMS: -1, LowerLevelUpdate: app.Update})
	must(err, "NewCollection")
	sc.Bind(coll, nil)
	must(coll.Start(), "Start")
	step := func(gate string, evs ...string) {
		must(sc.AwaitParked(gate, wait), "park "+gate)
		m := sc.Mark()
		sc.Release(gate)
		if len(evs) > 0 {
			_, err := sc.AwaitEvent(m, wait, evs...)
			must(err, "event after "+gate)
		}
	}
	nm := coll.(h.Notifier)
	// round 1: b1 reaches stackDirtyBase, the persister waits before its update
	batch(coll, "k1", "v1")
	step("merger.loop")
	step("merger.beforeIngest", "merger.ingest")
	step("merger.beforeSwap", "merger.swap")
	step("merger.beforeHandoff", "merger.handoff")
	must(sc.AwaitParked("persister.beforeUpdate", wait), "persister parks")
	// b2 is merged into stackDirtyMid but cannot be handed off (base is busy)
	batch(coll, "k2", "v2")
	step("merger.loop")
	step("merger.beforeIngest", "merger.ingest")
	step("merger.beforeSwap", "merger.swap")
	step("merger.beforeHandoff", "merger.handoffskip")
	// the merger goes to sleep on an empty top (waitDirtyIncomingCh is created), is
	// woken by a ping and stops right before the ingest, which needs the mutex
	must(sc.AwaitParked("merger.loop", wait), "merger parks at loop")
	sc.Release("merger.loop")
	time.Sleep(20 * time.Millisecond) // let it reach the select
	nm.NotifyMerger("poke", false)
	must(sc.AwaitParked("merger.beforeIngest", wait), "merger parks before ingest")
	// fill the ping channel
	for i := 0; i < 10; i++ {
		if !timed(func() { nm.NotifyMerger("poke", false) }) {
			r.Status, r.Detail = "infra", "could not queue 10 pings"
			return r
		}
	}
	// the persister completes round 1 and looks for more work
	step("persister.beforeUpdate")
	step("persister.beforeSwap", "persister.swap")
	time.Sleep(50 * time.Millisecond)
	// the merger continues: it needs the collection mutex
	sc.Release("merger.beforeIngest")
	sc.OpenAll()
	if !timed(func() {
		ss, err := coll.Snapshot()
		if err == nil {
			ss.Close()
		}
	}) {
		r.Status, r.Detail, r.Dump = "hang", "Collection.Snapshot() did not return within 3s: the persister holds the collection mutex while blocked sending to the full ping channel; the merger, the only receiver, waits for the mutex", dump()
		return r
	}
	if !timed(func() { coll.Close() }) {
		r.Status, r.Detail, r.Dump = "hang", "Collection.Close() did not return", dump()
	}
	return r
}

func l24(trial int) result {
	r := result{Scenario: "l24", Trial: trial, Status: "ok"}
	h.Install()
	sc := h.NewSched()
	sc.Open("exec.beforeLock", "close.beforeWait", "merger.beforeIngest", "merger.beforeSwap", "merger.beforeHandoff")
	coll, err := moss.NewCollection(moss.CollectionOptions{MaxPreMergerBatches: 4, MergerIdleRunTimeoutMS: -1})
	must(err, "NewCollection")
	sc.Bind(coll, nil)
	must(coll.Start(), "Start")
	must(sc.AwaitParked("merger.loop", wait), "merger parks")
	nm := coll.(h.Notifier)
	notified := make(chan struct{})
	go func() { nm.NotifyMerger("poke", true); close(notified) }() // synchronous: waits for the pong
	time.Sleep(20 * time.Millisecond)                              // the ping is queued now
	closed := make(chan struct{})
	m := sc.Mark()
	go func() { coll.Close(); close(closed) }()
	_, err = sc.AwaitEvent(m, wait, "coll.close.begin")
	must(err, "close begins")
	time.Sleep(20 * time.Millisecond)
	sc.OpenAll() // the merger now selects between the stop channel and the queued ping
	select {
	case <-closed:
	case <-time.After(3 * time.Second):
		r.Status, r.Detail, r.Dump = "hang", "Close() did not return", dump()
		return r
	}
	select {
	case <-notified:
	case <-time.After(3 * time.Second):
		r.Status, r.Detail, r.Dump = "hang", "a synchronous NotifyMerger() issued before Close() never returned: its ping was still queued when the merger stopped and nobody answers it", dump()
	}
	return r
}

func main() {
	scen := flag.String("scenario", "l10", "l10 | l24")
	trial := flag.Int("trial", 0, "trial number")
	flag.Parse()
	var r result
	switch *scen {
	case "l10":
		r = l10(*trial)
	case "l24":
		r = l24(*trial)
	default:
		r = result{Status: "infra", Detail: "unknown scenario"}
	}
	json.NewEncoder(os.Stdout).Encode(r)
}
