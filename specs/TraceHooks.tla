------------------------------ MODULE TraceHooks ------------------------------
(***************************************************************************)
(* Trace validation of the repository's own tests (direction B).  The 64   *)
(* tests of couchbase/moss are compiled with the verif tag and a tracer    *)
(* that writes every hook event (taken under the collection mutex) with    *)
(* the heights of the four sections; their assertions say little, but      *)
(* every event of every collection they create must be a step of the       *)
(* section dynamics that MossColl specifies:                               *)
(*                                                                         *)
(*   exec.push      top grows by at most one segment, never beyond         *)
(*                  MaxPreMergerBatches, never after Close                 *)
(*   merger.ingest  mid := mid ++ top, top := nil                          *)
(*   merger.swap    mid shrinks to at least one segment, nothing else moves*)
(*   merger.skip    an empty mid is re-installed                           *)
(*   merger.handoff base was nil: base := mid, mid := nil                  *)
(*   persister.swap base := nil, clean := base or nil (CachePersisted)     *)
(*   close          begin marks closed, end drops every section            *)
(*                                                                         *)
(* Events of different collections interleave; state is kept per           *)
(* collection id.  Records have the fixed shape                            *)
(*   [ev, c, top, mid, base, clean, closed, maxpre]                        *)
(* with -1 for a nil stack; "new" introduces a collection.                 *)
(***************************************************************************)
EXTENDS Integers, Sequences, FiniteSets, TLC, Json

CONSTANTS TraceFile, MaxColl

Trace == ndJsonDeserialize(TraceFile)

VARIABLES sec,      \* [1..MaxColl -> [top, mid, base, clean, closed, maxpre, live]]
          l

hvars == <<sec, l>>

Fresh == [top |-> -1, mid |-> -1, base |-> -1, clean |-> -1, closed |-> FALSE, maxpre |-> 10, live |-> FALSE]

HInit == sec = [c \in 1..MaxColl |-> Fresh] /\ l = 1

E == Trace[l]
Is(e) == l <= Len(Trace) /\ E.ev = e
Step == l' = l + 1
S == sec[E.c]
H(x) == IF x < 0 THEN 0 ELSE x          \* height of a possibly nil stack
Set(r) == sec' = [sec EXCEPT ![E.c] = r]
Same == E.top = S.top /\ E.mid = S.mid /\ E.base = S.base /\ E.clean = S.clean

HNew ==
    /\ Is("new")
    /\ Set([Fresh EXCEPT !.live = TRUE, !.maxpre = E.maxpre, !.top = E.top, !.mid = E.mid, !.base = E.base, !.clean = E.clean, !.closed = E.closed])
    /\ Step

HPush ==
    /\ Is("exec.push")
    /\ ~S.closed
    /\ E.top \in {H(S.top), H(S.top) + 1}
    /\ E.top <= S.maxpre
    /\ E.mid = S.mid /\ E.base = S.base /\ E.clean = S.clean
    /\ Set([S EXCEPT !.top = E.top])
    /\ Step

HIngest ==
    /\ Is("merger.ingest")
    /\ E.top = -1
    /\ E.mid = H(S.mid) + H(S.top)
    /\ E.base = S.base /\ E.clean = S.clean
    /\ Set([S EXCEPT !.top = -1, !.mid = E.mid])
    /\ Step

HSwap ==
    /\ Is("merger.swap")
    /\ E.top = S.top /\ E.base = S.base /\ E.clean = S.clean
    /\ E.mid >= 1 /\ E.mid <= H(S.mid) + 1       \* a stack without own segments gets one (empty) merged segment
    /\ Set([S EXCEPT !.mid = E.mid])
    /\ Step

HSkip ==
    /\ Is("merger.skip")
    /\ E.top = S.top /\ E.base = S.base /\ E.clean = S.clean
    /\ E.mid = 0
    /\ Set([S EXCEPT !.mid = E.mid])
    /\ Step

HHandoff ==
    /\ Is("merger.handoff")
    /\ S.base = -1 /\ S.mid # -1
    /\ E.base = S.mid /\ E.mid = -1
    /\ E.top = S.top /\ E.clean = S.clean
    /\ Set([S EXCEPT !.base = E.base, !.mid = -1])
    /\ Step

HHandoffSkip ==
    /\ Is("merger.handoffskip")
    /\ S.base # -1 \/ S.mid = -1
    /\ Same
    /\ Step /\ UNCHANGED sec

HPersisterSwap ==
    /\ Is("persister.swap")
    /\ S.base # -1
    /\ E.base = -1
    /\ E.clean \in {-1, S.base}
    /\ E.top = S.top /\ E.mid = S.mid
    /\ Set([S EXCEPT !.base = -1, !.clean = E.clean])
    /\ Step

HCloseBegin ==
    /\ Is("coll.close.begin")
    /\ ~S.closed /\ Same
    /\ Set([S EXCEPT !.closed = TRUE])
    /\ Step

HCloseEnd ==
    /\ Is("coll.close.end")
    /\ S.closed
    /\ E.top = -1 /\ E.mid = -1 /\ E.base = -1 /\ E.clean = -1
    /\ Set([S EXCEPT !.top = -1, !.mid = -1, !.base = -1, !.clean = -1])
    /\ Step

\* events that only observe: coll.snapshot, coll.get, persister.begin
HObserve ==
    /\ Is("observe")
    /\ Same /\ E.closed = S.closed
    /\ Step /\ UNCHANGED sec

\* ResetStackDirtyTop and other direct manipulations by tests: re-synchronise (counted by the runner)
HResync ==
    /\ Is("resync")
    /\ Set([S EXCEPT !.top = E.top, !.mid = E.mid, !.base = E.base, !.clean = E.clean, !.closed = E.closed])
    /\ Step

HNext == HNew \/ HPush \/ HIngest \/ HSwap \/ HSkip \/ HHandoff \/ HHandoffSkip \/ HPersisterSwap \/ HCloseBegin \/ HCloseEnd \/ HObserve \/ HResync

\* C16's bound, at every step of every test
TopBounded == \A c \in 1..MaxColl : sec[c].top <= sec[c].maxpre
\* the persister only ever works on a handed-off stack; clean exists only with a lower level round behind it
Shape == \A c \in 1..MaxColl : sec[c].live => (sec[c].mid >= -1 /\ sec[c].base >= -1)

Mark == TLCSet(1, l)
Accepted == TLCGet(1) = Len(Trace) + 1 \/ (PrintT(<<"REJECTED-AT", TLCGet(1)>>) /\ FALSE)
=============================================================================
