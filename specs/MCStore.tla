------------------------------- MODULE MCStore -------------------------------
(* Model-checking harness for MossStore. *)
EXTENDS MossStore

CONSTANT SimLen

Lead(inv) == inv \/ PrintT(<<"BEH", ToJson(hist)>>)
LeadPublishedFooterReadable == Lead(PublishedFooterReadable)
LeadOpenNeverFails == Lead(OpenNeverFails)
LeadAtLeastSynced == Lead(AtLeastSynced)
LeadCurrentFileExists == Lead(CurrentFileExists)

Edge == PrintT(<<"BEH", ToJson(hist')>>)
SimPrint == IF Len(hist) = SimLen \/ (Len(hist) >= 3 /\ ~ENABLED Next) THEN PrintT(<<"BEH", ToJson(hist)>>) ELSE TRUE
SimNext == Len(hist) < SimLen /\ Next
=============================================================================
