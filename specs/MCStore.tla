------------------------------- MODULE MCStore -------------------------------
(* Model-checking harness for MossStore. *)
EXTENDS MossStore

CONSTANT SimLen

Lead(inv) == inv \/ PrintT(<<"BEH", ToJson(hist)>>)
LeadPublishedFooterReadable == Lead(PublishedFooterReadable)
LeadOpenNeverFails == Lead(OpenNeverFails)
LeadAtLeastSynced == Lead(AtLeastSynced)
LeadCurrentFileExists == Lead(CurrentFileExists)
LeadAllClosedAllReleased == Lead(AllClosedAllReleased)
\* a read-only store is open while the directory holds fewer files than before its open
\* (state-level stand-in for the action property ReadOnlyOpenFrame, for lead harvesting)
LeadReadOnlyFiles == Lead(~(open /\ ro /\ Len(hist) > 0 /\ hist[Len(hist)].act = "Reopen"
                            /\ Len(hist) > 1 /\ hist[Len(hist)].exp.ex # hist[Len(hist) - 1].exp.ex))

Edge == PrintT(<<"BEH", ToJson(hist')>>)
SimPrint == IF Len(hist) = SimLen \/ (Len(hist) >= 3 /\ ~ENABLED Next) THEN PrintT(<<"BEH", ToJson(hist)>>) ELSE TRUE
SimNext == Len(hist) < SimLen /\ Next
=============================================================================
