------------------------------ MODULE MossIter ------------------------------
(***************************************************************************)
(* Iterators over a segment stack, written the way iterator.go and         *)
(* iterator_single.go are: one cursor per segment restricted to the window *)
(* [start, end), an optional lower-level cursor, the heap order (key, then *)
(* newest segment), Next popping every cursor on the same key and skipping *)
(* tombstones, SeekTo (equal: no-op; ahead: a bounded number of naive      *)
(* Next steps, then a restart from max(seek, start); behind or exhausted:  *)
(* restart), and optimize() choosing the single-segment fast path or       *)
(* handing out the lower-level iterator itself; the iterator options       *)
(* IncludeDeletions (deletion entries of the segments are visited as well) *)
(* and SkipLowerLevel (in-memory segments only).                           *)
(*                                                                         *)
(* Keys are 1..N.  Bounds and seek targets live on the doubled domain      *)
(* 1..2N+1 (even 2k = key k, odd = a gap between keys); 0 is a nil start,  *)
(* 2N+2 a nil end.  The reference is the ordered set of live keys.         *)
(***************************************************************************)
EXTENDS Integers, Sequences, FiniteSets, TLC, Json

CONSTANTS N, MaxSegs, WithLL, MaxTries, MaxCalls,
          IncDelSet,    \* SUBSET BOOLEAN: values of IteratorOptions.IncludeDeletions explored
          SkipLLSet,    \* SUBSET BOOLEAN: values of IteratorOptions.SkipLowerLevel explored
          Devs      \* named deviations of the code from the intended design

Keys == 1..N
Done == N + 1                   \* cursor position "exhausted"
Pos(k) == 2 * k
Bounds == 0..(2 * N + 2)

VARIABLES
    segs,       \* Seq of [Keys -> {"none","set","del"}], oldest first
    ll,         \* SUBSET Keys: keys the lower level holds
    sb, eb,     \* start / end bound on the doubled domain (0 / 2N+2 = nil)
    incDel,     \* IteratorOptions.IncludeDeletions: deletion entries of the segments are visited too (value nil)
    skipLL,     \* IteratorOptions.SkipLowerLevel: the lower level is not consulted
    kind,       \* "heap" | "single" | "ll" | "none": which iterator the code hands out
    sidx,       \* the segment of the single-segment iterator (0 otherwise)
    cur,        \* [0..MaxSegs -> Keys \cup {Done}]: where each cursor sits (0 = lower level)
    calls,      \* number of program steps so far
    hist

vars == <<segs, ll, sb, eb, incDel, skipLL, kind, sidx, cur, calls, hist>>
view == <<segs, ll, sb, eb, incDel, skipLL, kind, sidx, cur, calls>>

LLKeys == IF skipLL THEN {} ELSE ll

-----------------------------------------------------------------------------
(* Reference semantics *)
NewestOp(k) == IF \E i \in 1..Len(segs) : segs[i][k] # "none"
               THEN LET i == CHOOSE j \in 1..Len(segs) : segs[j][k] # "none" /\ \A j2 \in (j + 1)..Len(segs) : segs[j2][k] = "none"
                    IN [op |-> segs[i][k], src |-> i]
               ELSE IF k \in LLKeys THEN [op |-> "set", src |-> 0] ELSE [op |-> "none", src |-> 0]
\* what the iteration visits: live keys, and with IncludeDeletions also the keys whose newest
\* operation in the segments is a deletion (whatever the lower level holds)
Live(k) == NewestOp(k).op = "set" \/ (incDel /\ NewestOp(k).op = "del")
InRange(k) == sb <= Pos(k) /\ Pos(k) < eb
RefFirstFrom(p) ==      \* smallest live in-range key at doubled position >= p, else Done
    IF \E k \in Keys : Live(k) /\ InRange(k) /\ Pos(k) >= p
    THEN CHOOSE k \in Keys : Live(k) /\ InRange(k) /\ Pos(k) >= p /\ \A k2 \in Keys : (Live(k2) /\ InRange(k2) /\ Pos(k2) >= p) => k <= k2
    ELSE Done

-----------------------------------------------------------------------------
(* Implementation-shaped iterator *)
Has(i, k) == IF i = 0 THEN k \in LLKeys ELSE segs[i][k] # "none"
OpAt(i, k) == IF i = 0 THEN "set" ELSE segs[i][k]

\* segment.Cursor / findStartKeyInclusivePos: first key of cursor i at doubled position >= p inside the window
FirstIn(i, p) ==
    IF \E k \in Keys : Has(i, k) /\ Pos(k) >= p /\ Pos(k) >= sb /\ Pos(k) < eb
    THEN CHOOSE k \in Keys : Has(i, k) /\ Pos(k) >= p /\ Pos(k) >= sb /\ Pos(k) < eb
                             /\ \A k2 \in Keys : (Has(i, k2) /\ Pos(k2) >= p /\ Pos(k2) >= sb /\ Pos(k2) < eb) => k <= k2
    ELSE Done

Cursors(c) == {i \in 0..MaxSegs : c[i] # Done}
\* heap order: smallest key first, among equal keys the newest segment (largest index), lower level last
Top(c) == CHOOSE i \in Cursors(c) : \A j \in Cursors(c) : c[i] < c[j] \/ (c[i] = c[j] /\ i >= j)

StartCursors(p) ==      \* startIterator(seekToKey = p, end)
    [i \in 0..MaxSegs |->
        IF i = 0 THEN (IF WithLL /\ ~skipLL THEN FirstIn(0, p) ELSE Done)
        ELSE IF i <= Len(segs) THEN FirstIn(i, p) ELSE Done]

\* iterator.Next (iterator.go:229-287)
RECURSIVE HeapNextLoop(_, _)
HeapNextLoop(c, lastK) ==
    IF Cursors(c) = {} THEN c
    ELSE LET t == Top(c)
             c2 == [c EXCEPT ![t] = FirstIn(t, Pos(c[t]) + 1)]
         IN IF Cursors(c2) = {} THEN c2
            ELSE LET t2 == Top(c2) IN
                 IF c2[t2] # lastK
                 THEN (IF OpAt(t2, c2[t2]) = "del" /\ ~incDel THEN HeapNextLoop(c2, c2[t2]) ELSE c2)
                 ELSE HeapNextLoop(c2, lastK)
HeapNext(c) == IF Cursors(c) = {} THEN c ELSE HeapNextLoop(c, c[Top(c)])

\* startIterator's "skip a leading deletion"
StartHeap(p) ==
    LET c == StartCursors(p) IN
    IF Cursors(c) # {} /\ OpAt(Top(c), c[Top(c)]) = "del" /\ ~incDel THEN HeapNext(c) ELSE c

\* iteratorSingle.Next (iterator_single.go:54-72): one segment cursor, skip deletions
RECURSIVE SingleSkip(_, _)
SingleSkip(i, k) == IF k = Done THEN Done ELSE IF OpAt(i, k) = "del" /\ ~incDel THEN SingleSkip(i, FirstIn(i, Pos(k) + 1)) ELSE k
SingleNext(c) == LET i == Top(c) IN [c EXCEPT ![i] = SingleSkip(i, FirstIn(i, Pos(c[i]) + 1))]

CurKey(c) == IF Cursors(c) = {} THEN Done ELSE c[Top(c)]
CurSrc(c) == IF Cursors(c) = {} THEN 0 ELSE Top(c)

NextOf(c) == IF kind = "single" THEN (IF Cursors(c) = {} THEN c ELSE SingleNext(c)) ELSE HeapNext(c)

\* naiveSeekTo (iterator.go:351-369): returns <<cursors, "ok" | "done" | "max">>
RECURSIVE Naive(_, _, _)
Naive(c, x, tries) ==
    IF tries = 0 THEN <<c, "max">>
    ELSE IF CurKey(c) = Done THEN <<c, "done">>
    ELSE IF x <= Pos(CurKey(c)) THEN <<c, "ok">>
    ELSE LET c2 == NextOf(c) IN
         IF CurKey(c2) = Done THEN <<c2, "done">> ELSE Naive(c2, x, tries - 1)

Max(a, b) == IF a >= b THEN a ELSE b

\* iterator.SeekTo / iteratorSingle.SeekTo
SingleSeek(c, x) ==     \* sc.Seek(x) clamps to the window start, then deletions are skipped
    [c EXCEPT ![sidx] = SingleSkip(sidx, FirstIn(sidx, Max(x, sb)))]

SeekResult(c, x) ==
    IF CurKey(c) # Done /\ Pos(CurKey(c)) = x THEN <<c, "ok">>
    ELSE LET nv == IF CurKey(c) # Done /\ x > Pos(CurKey(c)) THEN Naive(c, x, MaxTries) ELSE <<c, "max">> IN
         IF nv[2] # "max" THEN nv
         ELSE LET c2 == IF kind = "single" THEN SingleSeek(nv[1], x) ELSE StartHeap(Max(x, sb)) IN
              <<c2, IF CurKey(c2) = Done THEN "done" ELSE "ok">>

-----------------------------------------------------------------------------
Shapes == UNION {[1..n -> [Keys -> {"none", "set", "del"}]] : n \in 0..MaxSegs}

\* optimize() (iterator.go:455-483)
\* The fast paths are only taken when the iterator started with a single cursor
\* (startedSingle).  As first written, the number of cursors was looked at after the
\* leading deletions had been skipped, when exhausted cursors are already gone.
KindOf(c) ==
    IF Cardinality(Cursors(c)) # 1 THEN "heap"
    ELSE IF ~("OptimizeAfterSkip" \in Devs) /\ Cardinality(Cursors(StartCursors(sb))) # 1 THEN "heap"
    ELSE IF Top(c) = 0 THEN "ll" ELSE "single"

Ret(c) == [done |-> CurKey(c) = Done, k |-> IF CurKey(c) = Done THEN 0 ELSE CurKey(c), src |-> CurSrc(c),
           del |-> (CurKey(c) # Done /\ OpAt(CurSrc(c), CurKey(c)) = "del")]

Init ==
    /\ segs \in Shapes
    /\ ll \in (IF WithLL THEN SUBSET Keys ELSE {{}})
    /\ sb \in 0..(2 * N + 1) /\ eb \in 1..(2 * N + 2)
    /\ incDel \in IncDelSet /\ skipLL \in SkipLLSet
    /\ kind = "none" /\ sidx = 0
    /\ cur = [i \in 0..MaxSegs |-> Done]
    /\ calls = 0
    /\ hist = <<>>

\* reference position after the call (see RefPos below)
RECURSIVE RefPosH(_, _)
RefPosH(h, n) ==
    IF n = 0 THEN sb
    ELSE LET e == h[n] prev == RefPosH(h, n - 1) IN
         CASE e.call = "Start" -> sb
           [] e.call = "Next" -> (IF RefFirstFrom(prev) = Done THEN 2 * N + 2 ELSE Pos(RefFirstFrom(prev)) + 1)
           [] e.call = "SeekTo" -> (IF e.arg >= sb THEN e.arg ELSE sb)
RefRet(h) == LET k == RefFirstFrom(RefPosH(h, Len(h))) IN
             [done |-> k = Done, k |-> IF k = Done THEN 0 ELSE k, src |-> IF k = Done THEN 0 ELSE NewestOp(k).src,
              del |-> (k # Done /\ NewestOp(k).op = "del")]

Log(call, arg, c, ret) ==
    LET e == [call |-> call, arg |-> arg, ret |-> ret, cur |-> Ret(c), kind |-> kind'] IN
    hist' = Append(hist, [e EXCEPT !.cur = Ret(c)] @@ [ref |-> RefRet(Append(hist, e))])

Start ==
    /\ kind = "none"
    /\ LET c == StartHeap(sb) IN
       /\ cur' = c
       /\ kind' = KindOf(c)
       /\ sidx' = IF KindOf(c) = "single" THEN Top(c) ELSE 0
       /\ Log("Start", [segs |-> segs, ll |-> [k \in Keys |-> k \in ll], sb |-> sb, eb |-> eb, incDel |-> incDel, skipLL |-> skipLL], c, "ok")
    /\ calls' = 0
    /\ UNCHANGED <<segs, ll, sb, eb, incDel, skipLL>>

Started == kind \in {"heap", "single", "ll"}

DoNext ==
    /\ Started /\ calls < MaxCalls
    /\ LET c == NextOf(cur) IN
       /\ cur' = c
       /\ UNCHANGED <<segs, ll, sb, eb, incDel, skipLL, kind, sidx>>
       /\ Log("Next", 0, c, IF CurKey(cur) = Done \/ CurKey(c) = Done THEN "done" ELSE "ok")
    /\ calls' = calls + 1

DoSeek(x) ==
    /\ Started /\ calls < MaxCalls
    /\ LET r == SeekResult(cur, x) IN
       /\ cur' = r[1]
       /\ UNCHANGED <<segs, ll, sb, eb, incDel, skipLL, kind, sidx>>
       /\ Log("SeekTo", x, r[1], r[2])
    /\ calls' = calls + 1

Next == Start \/ DoNext \/ \E x \in 1..(2 * N + 1) : DoSeek(x)

Spec == Init /\ [][Next]_vars

-----------------------------------------------------------------------------
(* C09.  The position of the implementation-shaped iterator is determined by
   the calls made so far; the reference position is tracked in the history:
   after Start it is the first live key >= start, after Next the next live
   key, after SeekTo(x) the first live key >= max(x, start). *)
RECURSIVE RefPos(_)
RefPos(n) ==     \* reference doubled position lower bound after the first n history entries
    IF n = 0 THEN sb
    ELSE LET h == hist[n] prev == RefPos(n - 1) IN
         CASE h.call = "Start" -> sb
           [] h.call = "Next" -> (IF RefFirstFrom(prev) = Done THEN 2 * N + 2 ELSE Pos(RefFirstFrom(prev)) + 1)
           [] h.call = "SeekTo" -> Max(h.arg, sb)
RefKey == RefFirstFrom(RefPos(Len(hist)))

IterAgrees == Started => CurKey(cur) = RefKey
SourceIsNewest == (Started /\ CurKey(cur) # Done) => CurSrc(cur) = NewestOp(CurKey(cur)).src
RetAgrees == (Len(hist) > 0 /\ hist[Len(hist)].call # "Start") =>
                 LET h == hist[Len(hist)] IN
                 ((h.ret = "done") = (RefKey = Done))
DoneAbsorbing == [][(Started /\ CurKey(cur) = Done /\ calls' = calls + 1 /\ hist'[Len(hist')].call = "Next") => CurKey(cur') = Done]_vars

=============================================================================
