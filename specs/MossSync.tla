------------------------------ MODULE MossSync ------------------------------
(***************************************************************************)
(* Blocking, wake-ups and Close of a collection (C16): the collection      *)
(* mutex, the two condition variables, waitDirtyIncomingCh, the bounded    *)
(* ping channel with pongs, and the goroutines that use them -- writers    *)
(* (ExecuteBatch), the merger, the persister with a lower level that may   *)
(* fail or stall, notifiers (NotifyMerger) and the closer.  One action per *)
(* point at which the Go code can be pre-empted while it matters (lock     *)
(* acquisition, condition wait, channel operation).  Data is abstracted    *)
(* to what synchronisation depends on: len(stackDirtyTop.a), emptiness of  *)
(* stackDirtyMid, stackDirtyBase == nil.                                   *)
(***************************************************************************)
EXTENDS Integers, Sequences, FiniteSets, TLC, Json

CONSTANTS
    NWriters, MaxBatches,   \* writers 1..NWriters, each executes MaxBatches batches
    MaxPre,                 \* MaxPreMergerBatches
    PingCap,                \* capacity of pingMergerCh (10 in the code)
    NNotifiers, SyncNotify, \* notifiers 1..NNotifiers; whether they wait for the pong
    HasLL,                  \* a lower level / persister exists
    MaxLLFails,             \* LowerLevelUpdate may fail this many times
    WithClose,              \* a closer calls Close()
    DirtyWait,              \* MaxDirtyOps / MaxDirtyKeyValBytes are configured so low that the merger waits for the
                            \* persister after every cycle that leaves anything dirty (worst case of that back-pressure)
    Devs

VARIABLES
    mu,         \* holder of the collection mutex: 0 (free), a writer number, or 100 (the persister)
    top,        \* len(stackDirtyTop.a)
    mid,        \* "nil" | "empty" | "full"
    base,       \* "nil" | "empty" | "full"
    closed,     \* stopCh closed
    wch,        \* collection.waitDirtyIncomingCh: "nil" | "open"
    msig,       \* the channel the merger waits on was closed by ExecuteBatch
    pings,      \* pingMergerCh: sequence of [from, sync]
    held,       \* pings the merger has received and not yet answered
    ponged,     \* notifiers whose pong channel was closed
    topWait,    \* writers blocked in stackDirtyTopCond.Wait()
    baseWait,   \* the persister is blocked in stackDirtyBaseCond.Wait()
    wpc, wdone, wres,  \* writers: program counter, batches done, result of the last call
    mpc,        \* merger
    ppc, llfails,      \* persister
    npc,        \* notifiers
    cpc,        \* closer
    mdone, pdone,
    och,        \* collection.waitDirtyOutgoingCh: 0 (nil) or the generation number of the channel
    oclosed,    \* generations that have been closed
    ogen,       \* generations made so far
    mout,       \* the channel the merger captured in mergerNotifyPersister (0: none)
    pout        \* the channel the persister captured in its swap and closes after unlocking (0: none)

vars == <<mu, top, mid, base, closed, wch, msig, pings, held, ponged, topWait, baseWait,
          wpc, wdone, wres, mpc, ppc, llfails, npc, cpc, mdone, pdone, och, oclosed, ogen, mout, pout>>

Writers == 1..NWriters
Notifiers == 1..NNotifiers
W(w) == w          \* the mutex holder: 0 nobody, w a writer, 100 the persister
Dev(d) == d \in Devs
OUT == <<och, oclosed, ogen, mout, pout>>

Init ==
    /\ mu = 0 /\ top = 0 /\ mid = "nil" /\ base = "nil" /\ closed = FALSE
    /\ wch = "nil" /\ msig = FALSE /\ pings = <<>> /\ held = <<>> /\ ponged = {}
    /\ topWait = {} /\ baseWait = FALSE
    /\ wpc = [w \in Writers |-> "idle"] /\ wdone = [w \in Writers |-> 0] /\ wres = [w \in Writers |-> "none"]
    /\ mpc = "loop" /\ ppc = (IF HasLL THEN "lock" ELSE "exited") /\ llfails = 0
    /\ npc = [n \in Notifiers |-> "idle"]
    /\ cpc = (IF WithClose THEN "idle" ELSE "never")
    /\ mdone = FALSE /\ pdone = ~HasLL
    /\ och = 0 /\ oclosed = {} /\ ogen = 0 /\ mout = 0 /\ pout = 0

-----------------------------------------------------------------------------
(* Writers: ExecuteBatch (collection.go:297-387) *)

WCall(w) ==
    /\ UNCHANGED OUT
    /\ wpc[w] = "idle" /\ wdone[w] < MaxBatches
    /\ wpc' = [wpc EXCEPT ![w] = "lock"]
    /\ UNCHANGED <<mu, top, mid, base, closed, wch, msig, pings, held, ponged, topWait, baseWait, wdone, wres, mpc, ppc, llfails, npc, cpc, mdone, pdone>>

WLock(w) ==     \* m.m.Lock(), also after a condition wake-up
    /\ UNCHANGED OUT
    /\ wpc[w] = "lock" /\ mu = 0
    /\ mu' = W(w)
    /\ wpc' = [wpc EXCEPT ![w] = "check"]
    /\ UNCHANGED <<top, mid, base, closed, wch, msig, pings, held, ponged, topWait, baseWait, wdone, wres, mpc, ppc, llfails, npc, cpc, mdone, pdone>>

WCheck(w) ==    \* the for loop at 340-354 and what follows, up to Unlock
    /\ UNCHANGED OUT
    /\ wpc[w] = "check" /\ mu = W(w)
    /\ IF top >= MaxPre
       THEN IF closed /\ ~Dev("NoClosedCheckInWaitLoop")
            THEN /\ mu' = 0 /\ wpc' = [wpc EXCEPT ![w] = "idle"] /\ wres' = [wres EXCEPT ![w] = "ErrClosed"]
                 /\ wdone' = [wdone EXCEPT ![w] = MaxBatches]
                 /\ UNCHANGED <<top, wch, msig, topWait>>
            ELSE /\ mu' = 0 /\ topWait' = topWait \cup {w} /\ wpc' = [wpc EXCEPT ![w] = "waiting"]   \* Cond.Wait
                 /\ UNCHANGED <<top, wch, msig, wres, wdone>>
       ELSE IF closed
            THEN /\ mu' = 0 /\ wpc' = [wpc EXCEPT ![w] = "idle"] /\ wres' = [wres EXCEPT ![w] = "ErrClosed"]
                 /\ wdone' = [wdone EXCEPT ![w] = MaxBatches]
                 /\ UNCHANGED <<top, wch, msig, topWait>>
            ELSE /\ top' = top + 1
                 /\ (IF wch = "open" THEN wch' = "nil" /\ msig' = TRUE ELSE UNCHANGED <<wch, msig>>)
                 /\ mu' = 0 /\ wpc' = [wpc EXCEPT ![w] = "idle"] /\ wres' = [wres EXCEPT ![w] = "nil"]
                 /\ wdone' = [wdone EXCEPT ![w] = @ + 1]
                 /\ UNCHANGED topWait
    /\ UNCHANGED <<mid, base, closed, pings, held, ponged, baseWait, mpc, ppc, llfails, npc, cpc, mdone, pdone>>

\* a writer woken by Broadcast has to take the mutex again
WWake(w) ==
    /\ UNCHANGED OUT
    /\ wpc[w] = "waiting" /\ w \notin topWait
    /\ wpc' = [wpc EXCEPT ![w] = "lock"]
    /\ UNCHANGED <<mu, top, mid, base, closed, wch, msig, pings, held, ponged, topWait, baseWait, wdone, wres, mpc, ppc, llfails, npc, cpc, mdone, pdone>>

-----------------------------------------------------------------------------
(* The merger (collection_merger.go) *)

Pong(ps) == {p.from : p \in {ps[i] : i \in 1..Len(ps)}}

MLoop ==        \* replyToPings from the previous loop
    /\ UNCHANGED OUT
    /\ mpc = "loop"
    /\ ponged' = ponged \cup Pong(held) /\ held' = <<>>
    /\ mpc' = "wfw"
    /\ UNCHANGED <<mu, top, mid, base, closed, wch, msig, pings, topWait, baseWait, wpc, wdone, wres, ppc, llfails, npc, cpc, mdone, pdone>>

MWaitForWork == \* mergerWaitForWork 208-215: under the lock
    /\ UNCHANGED OUT
    /\ mpc = "wfw" /\ mu = 0
    /\ IF top = 0 THEN wch' = "open" /\ msig' = FALSE /\ mpc' = "select"
       ELSE UNCHANGED <<wch, msig>> /\ mpc' = "drain"
    /\ UNCHANGED <<mu, top, mid, base, closed, pings, held, ponged, topWait, baseWait, wpc, wdone, wres, ppc, llfails, npc, cpc, mdone, pdone>>

MSelectStop ==  \* case <-m.stopCh
    /\ UNCHANGED OUT
    /\ mpc = "select" /\ closed
    \* deferred replyToPings: the pings the merger has received.  Pings still queued in
    \* the channel are never answered; their senders give up when the merger's done
    \* channel is closed (see NPong) -- as first written they waited for ever.
    /\ ponged' = ponged \cup Pong(held) /\ pings' = pings
    /\ held' = <<>>
    /\ mpc' = "exited" /\ mdone' = TRUE
    /\ UNCHANGED <<mu, top, mid, base, closed, wch, msig, topWait, baseWait, wpc, wdone, wres, ppc, llfails, npc, cpc, pdone>>

MSelectPing ==  \* case pingVal := <-m.pingMergerCh
    /\ UNCHANGED OUT
    /\ mpc = "select" /\ Len(pings) > 0
    /\ held' = Append(held, Head(pings)) /\ pings' = Tail(pings)
    /\ mpc' = "drain"
    /\ UNCHANGED <<mu, top, mid, base, closed, wch, msig, ponged, topWait, baseWait, wpc, wdone, wres, ppc, llfails, npc, cpc, mdone, pdone>>

MSelectIncoming ==  \* case <-waitDirtyIncomingCh
    /\ UNCHANGED OUT
    /\ mpc = "select" /\ msig
    /\ mpc' = "drain"
    /\ UNCHANGED <<mu, top, mid, base, closed, wch, msig, pings, held, ponged, topWait, baseWait, wpc, wdone, wres, ppc, llfails, npc, cpc, mdone, pdone>>

MDrain ==       \* receivePings: everything that is queued, without blocking
    /\ UNCHANGED OUT
    /\ mpc = "drain"
    /\ held' = held \o pings /\ pings' = <<>>
    /\ mpc' = "ingest"
    /\ UNCHANGED <<mu, top, mid, base, closed, wch, msig, ponged, topWait, baseWait, wpc, wdone, wres, ppc, llfails, npc, cpc, mdone, pdone>>

MIngest ==      \* the snapshot callback 98-124: under the lock; wakes blocked writers
    /\ UNCHANGED OUT
    /\ mpc = "ingest" /\ mu = 0
    /\ mid' = IF top > 0 \/ mid = "full" THEN "full" ELSE "empty"
    /\ top' = 0
    /\ topWait' = IF Dev("IngestDoesNotBroadcast") THEN topWait ELSE {}
    /\ mpc' = "swap"
    /\ UNCHANGED <<mu, base, closed, wch, msig, pings, held, ponged, baseWait, wpc, wdone, wres, ppc, llfails, npc, cpc, mdone, pdone>>

MSwap ==        \* mergerMain's critical section
    /\ UNCHANGED OUT
    /\ mpc = "swap" /\ mu = 0
    /\ mpc' = IF HasLL THEN "handoff" ELSE "loop"
    /\ UNCHANGED <<mu, top, mid, base, closed, wch, msig, pings, held, ponged, topWait, baseWait, wpc, wdone, wres, ppc, llfails, npc, cpc, mdone, pdone>>

\* mergerNotifyPersister 326-395: under the lock the stack is handed off (the outgoing channel of
\* the previous hand-off is closed and a new one made); when the dirty limits are exceeded the
\* merger captures the current outgoing channel and, after unlocking, waits for it or for stop.
OverDirty(t, m, b) == DirtyWait /\ (t > 0 \/ m = "full" \/ b = "full")
MHandoff ==
    /\ mpc = "handoff" /\ mu = 0
    /\ IF base = "nil" /\ mid # "nil"
       THEN /\ base' = mid /\ mid' = "nil" /\ baseWait' = FALSE      \* Broadcast
            /\ oclosed' = IF och # 0 THEN oclosed \cup {och} ELSE oclosed
            /\ ogen' = ogen + 1 /\ och' = ogen + 1
       ELSE UNCHANGED <<base, mid, baseWait, oclosed, ogen, och>>
    /\ IF OverDirty(top, mid', base') /\ och' # 0
       THEN mout' = och' /\ mpc' = "waitout"
       ELSE mout' = 0 /\ mpc' = "loop"
    /\ UNCHANGED <<mu, top, closed, wch, msig, pings, held, ponged, topWait, wpc, wdone, wres, ppc, llfails, npc, cpc, mdone, pdone, pout>>

MWaitOut ==     \* select { case <-m.stopCh: return; case <-waitDirtyOutgoingCh: }
    /\ mpc = "waitout"
    /\ closed \/ (mout \in oclosed /\ ~Dev("PersisterDoesNotCloseOutgoing"))
    /\ mout' = 0 /\ mpc' = "loop"
    /\ UNCHANGED <<mu, top, mid, base, closed, wch, msig, pings, held, ponged, topWait, baseWait, wpc, wdone, wres, ppc, llfails, npc, cpc, mdone, pdone, och, oclosed, ogen, pout>>

-----------------------------------------------------------------------------
(* The persister (persister.go) *)

PLock ==
    /\ UNCHANGED OUT
    /\ ppc = "lock" /\ mu = 0
    /\ mu' = 100 /\ ppc' = "check"
    /\ UNCHANGED <<top, mid, base, closed, wch, msig, pings, held, ponged, topWait, baseWait, wpc, wdone, wres, mpc, llfails, npc, cpc, mdone, pdone>>

\* the wait loop 34-56, holding the mutex
PCheck ==
    /\ UNCHANGED OUT
    /\ ppc = "check" /\ mu = 100
    /\ IF base = "nil" /\ ~closed
       THEN IF wch # "nil" /\ mid = "full" /\ top = 0 /\ ~Dev("PersisterDoesNotNotify")
            THEN ppc' = "notify" /\ UNCHANGED <<mu, baseWait>>
            ELSE mu' = 0 /\ baseWait' = TRUE /\ ppc' = "waiting"       \* Cond.Wait
       ELSE mu' = 0 /\ ppc' = "captured" /\ UNCHANGED baseWait
    /\ UNCHANGED <<top, mid, base, closed, wch, msig, pings, held, ponged, topWait, wpc, wdone, wres, mpc, llfails, npc, cpc, mdone, pdone>>

\* m.NotifyMerger("from-persister", false) -- a channel send that blocks when the
\* ping channel is full, executed while the collection mutex is held (persister.go:47-51).
\* In the intended design the notification never blocks under the mutex.
PNotify ==
    /\ UNCHANGED OUT
    /\ ppc = "notify" /\ mu = 100
    /\ IF Len(pings) < PingCap
       THEN pings' = Append(pings, [from |-> 0, sync |-> FALSE])
       ELSE /\ ~Dev("PersisterNotifyBlocksUnderLock")     \* dropped when the channel is full
            /\ pings' = pings
    /\ mu' = 0 /\ baseWait' = TRUE /\ ppc' = "waiting"
    /\ UNCHANGED <<top, mid, base, closed, wch, msig, held, ponged, topWait, wpc, wdone, wres, mpc, llfails, npc, cpc, mdone, pdone>>

PWake ==
    /\ UNCHANGED OUT
    /\ ppc = "waiting" /\ ~baseWait
    /\ ppc' = "lock"
    /\ UNCHANGED <<mu, top, mid, base, closed, wch, msig, pings, held, ponged, topWait, baseWait, wpc, wdone, wres, mpc, llfails, npc, cpc, mdone, pdone>>

PAfterCapture ==    \* 62-64
    /\ UNCHANGED OUT
    /\ ppc = "captured"
    /\ IF closed THEN ppc' = "exited" /\ pdone' = TRUE ELSE ppc' = "update" /\ pdone' = pdone
    /\ UNCHANGED <<mu, top, mid, base, closed, wch, msig, pings, held, ponged, topWait, baseWait, wpc, wdone, wres, mpc, llfails, npc, cpc, mdone>>

PUpdateOk ==        \* LowerLevelUpdate returned a snapshot
    /\ UNCHANGED OUT
    /\ ppc = "update"
    /\ ppc' = "swaplock"
    /\ UNCHANGED <<mu, top, mid, base, closed, wch, msig, pings, held, ponged, topWait, baseWait, wpc, wdone, wres, mpc, llfails, npc, cpc, mdone, pdone>>

PUpdateFail ==      \* LowerLevelUpdate failed: OnError, retry
    /\ UNCHANGED OUT
    /\ ppc = "update" /\ llfails < MaxLLFails
    /\ llfails' = llfails + 1
    /\ ppc' = "lock"
    /\ UNCHANGED <<mu, top, mid, base, closed, wch, msig, pings, held, ponged, topWait, baseWait, wpc, wdone, wres, mpc, npc, cpc, mdone, pdone>>

PSwap ==            \* 86-113: under the lock; the outgoing channel is taken out of the collection
    /\ ppc = "swaplock" /\ mu = 0
    /\ base' = "nil"
    /\ pout' = och /\ och' = 0
    /\ ppc' = "closeout"
    /\ UNCHANGED <<mu, top, mid, closed, wch, msig, pings, held, ponged, topWait, baseWait, wpc, wdone, wres, mpc, llfails, npc, cpc, mdone, pdone, oclosed, ogen, mout>>

PCloseOut ==        \* 127-129: after unlocking, close(waitDirtyOutgoingCh)
    /\ ppc = "closeout"
    /\ oclosed' = IF pout # 0 THEN oclosed \cup {pout} ELSE oclosed
    /\ pout' = 0
    /\ ppc' = "lock"
    /\ UNCHANGED <<mu, top, mid, base, closed, wch, msig, pings, held, ponged, topWait, baseWait, wpc, wdone, wres, mpc, llfails, npc, cpc, mdone, pdone, och, ogen, mout>>

-----------------------------------------------------------------------------
(* Notifiers: NotifyMerger(kind, synchronous) *)

NSend(n) ==
    /\ UNCHANGED OUT
    /\ npc[n] = "idle"
    /\ IF Len(pings) < PingCap
       THEN /\ pings' = Append(pings, [from |-> n, sync |-> SyncNotify])
            /\ npc' = [npc EXCEPT ![n] = IF SyncNotify THEN "pong" ELSE "done"]
       ELSE /\ mdone /\ ~Dev("ExitIgnoresQueuedPings")     \* case <-m.doneMergerCh: ErrClosed
            /\ pings' = pings /\ npc' = [npc EXCEPT ![n] = "done"]
    /\ UNCHANGED <<mu, top, mid, base, closed, wch, msig, held, ponged, topWait, baseWait, wpc, wdone, wres, mpc, ppc, llfails, cpc, mdone, pdone>>

NPong(n) ==
    /\ UNCHANGED OUT
    /\ npc[n] = "pong"
    /\ n \in ponged \/ (mdone /\ ~Dev("ExitIgnoresQueuedPings"))
    /\ npc' = [npc EXCEPT ![n] = "done"]
    /\ UNCHANGED <<mu, top, mid, base, closed, wch, msig, pings, held, ponged, topWait, baseWait, wpc, wdone, wres, mpc, ppc, llfails, cpc, mdone, pdone>>

-----------------------------------------------------------------------------
(* The closer: Close() (collection.go:122-181) *)

CBegin ==
    /\ UNCHANGED OUT
    /\ cpc = "idle" /\ mu = 0
    /\ closed' = TRUE
    /\ topWait' = {} /\ baseWait' = FALSE           \* both Broadcasts
    /\ cpc' = "waitmerger"
    /\ UNCHANGED <<mu, top, mid, base, wch, msig, pings, held, ponged, wpc, wdone, wres, mpc, ppc, llfails, npc, mdone, pdone>>

CWaitMerger ==
    /\ UNCHANGED OUT
    /\ cpc = "waitmerger" /\ mdone
    /\ cpc' = "waitpersister"
    /\ UNCHANGED <<mu, top, mid, base, closed, wch, msig, pings, held, ponged, topWait, baseWait, wpc, wdone, wres, mpc, ppc, llfails, npc, mdone, pdone>>

CWaitPersister ==
    /\ UNCHANGED OUT
    /\ cpc = "waitpersister" /\ pdone
    /\ cpc' = "final"
    /\ UNCHANGED <<mu, top, mid, base, closed, wch, msig, pings, held, ponged, topWait, baseWait, wpc, wdone, wres, mpc, ppc, llfails, npc, mdone, pdone>>

CFinal ==
    /\ UNCHANGED OUT
    /\ cpc = "final" /\ mu = 0
    /\ top' = 0 /\ mid' = "nil" /\ base' = "nil"
    /\ cpc' = "done"
    /\ UNCHANGED <<mu, closed, wch, msig, pings, held, ponged, topWait, baseWait, wpc, wdone, wres, mpc, ppc, llfails, npc, mdone, pdone>>

-----------------------------------------------------------------------------
Next ==
    \/ \E w \in Writers : WCall(w) \/ WLock(w) \/ WCheck(w) \/ WWake(w)
    \/ MLoop \/ MWaitForWork \/ MSelectStop \/ MSelectPing \/ MSelectIncoming \/ MDrain \/ MIngest \/ MSwap \/ MHandoff \/ MWaitOut
    \/ PLock \/ PCheck \/ PNotify \/ PWake \/ PAfterCapture \/ PUpdateOk \/ PUpdateFail \/ PSwap \/ PCloseOut
    \/ \E n \in Notifiers : NSend(n) \/ NPong(n)
    \/ CBegin \/ CWaitMerger \/ CWaitPersister \/ CFinal

Fairness ==
    /\ \A w \in Writers : WF_vars(WLock(w)) /\ WF_vars(WCheck(w)) /\ WF_vars(WWake(w)) /\ WF_vars(WCall(w))
    /\ WF_vars(MLoop) /\ WF_vars(MWaitForWork) /\ WF_vars(MSelectStop \/ MSelectPing \/ MSelectIncoming) /\ WF_vars(MDrain)
    /\ WF_vars(MIngest) /\ WF_vars(MSwap) /\ WF_vars(MHandoff) /\ WF_vars(MWaitOut)
    /\ WF_vars(PLock) /\ WF_vars(PCheck) /\ WF_vars(PNotify) /\ WF_vars(PWake) /\ WF_vars(PAfterCapture) /\ WF_vars(PUpdateOk) /\ WF_vars(PSwap) /\ WF_vars(PCloseOut)
    /\ \A n \in Notifiers : WF_vars(NSend(n)) /\ WF_vars(NPong(n))
    /\ WF_vars(CBegin) /\ WF_vars(CWaitMerger) /\ WF_vars(CWaitPersister) /\ WF_vars(CFinal)

Spec == Init /\ [][Next]_vars /\ Fairness

-----------------------------------------------------------------------------
(* C16 *)

\* the number of accepted but unmerged batches never exceeds MaxPreMergerBatches
TopBounded == top <= MaxPre

\* the mutex is never held by a goroutine that is blocked on something else for good:
\* checked as deadlock freedom below (TLC's deadlock check with a legitimate end state)
AllDone ==
    /\ \A w \in Writers : wpc[w] = "idle" /\ wdone[w] = MaxBatches
    /\ \A n \in Notifiers : npc[n] = "done"
    /\ cpc \in {"done", "never"}
Quiescent ==    \* without Close: everything executed, nothing queued, background goroutines asleep
    /\ \A w \in Writers : wpc[w] = "idle" /\ wdone[w] = MaxBatches
    /\ \A n \in Notifiers : npc[n] = "done"
NoDeadlock == (ENABLED Next) \/ AllDone \/ (cpc = "never" /\ Quiescent)

\* after Close has returned nothing is accepted any more
ClosedIsFinal == [][cpc = "done" => (top' = 0 /\ \A w \in Writers : wpc[w] = "check" /\ wpc'[w] = "idle" => wres'[w] = "ErrClosed")]_vars

\* liveness: every call returns
WritersReturn == \A w \in Writers : []<>(wpc[w] = "idle")
WritersFinish == <>(\A w \in Writers : wdone[w] = MaxBatches)
NotifiersReturn == \A n \in Notifiers : (npc[n] = "pong") ~> (npc[n] = "done")
CloseReturns == (cpc # "never") => <>(cpc = "done")
\* writers blocked on back-pressure when Close is called are released with ErrClosed (or got through)
BlockedWritersReleased == \A w \in Writers : (wpc[w] = "waiting" /\ closed) ~> (wpc[w] = "idle")

=============================================================================
