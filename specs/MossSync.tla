------------------------------ MODULE MossSync ------------------------------
(***************************************************************************)
(* Blocking, wake-ups and Close of a collection (C16): the collection      *)
(* mutex, the two condition variables, waitDirtyIncomingCh, the bounded    *)
(* ping channel with pongs, and the goroutines that use them -- writers    *)
(* (ExecuteBatch), the merger, the persister with a lower level that may   *)
(* fail or stall, notifiers (NotifyMerger) and the closer.  One action per *)
(* point at which the Go code can be pre-empted while it matters (lock     *)
(* acquisition, condition wait, channel operation).  Data is abstracted    *)
(* to what synchronisation depends on: len(stackDirtyTop.a), emptiness of  *)
(* stackDirtyMid, stackDirtyBase == nil.                                   *)
(***************************************************************************)
EXTENDS Integers, Sequences, FiniteSets, TLC, Json

CONSTANTS
    NWriters, MaxBatches,   \* writers 1..NWriters, each executes MaxBatches batches
    MaxPre,                 \* MaxPreMergerBatches
    PingCap,                \* capacity of pingMergerCh (10 in the code)
    NNotifiers, SyncNotify, \* notifiers 1..NNotifiers; whether they wait for the pong
    HasLL,                  \* a lower level / persister exists
    MaxLLFails,             \* LowerLevelUpdate may fail this many times
    WithClose,              \* a closer calls Close()
    Devs

VARIABLES
    mu,         \* holder of the collection mutex: 0 (free), a writer number, or 100 (the persister)
    top,        \* len(stackDirtyTop.a)
    mid,        \* "nil" | "empty" | "full"
    base,       \* "nil" | "empty" | "full"
    closed,     \* stopCh closed
    wch,        \* collection.waitDirtyIncomingCh: "nil" | "open"
    msig,       \* the channel the merger waits on was closed by ExecuteBatch
    pings,      \* pingMergerCh: sequence of [from, sync]
    held,       \* pings the merger has received and not yet answered
    ponged,     \* notifiers whose pong channel was closed
    topWait,    \* writers blocked in stackDirtyTopCond.Wait()
    baseWait,   \* the persister is blocked in stackDirtyBaseCond.Wait()
    wpc, wdone, wres,  \* writers: program counter, batches done, result of the last call
    mpc,        \* merger
    ppc, llfails,      \* persister
    npc,        \* notifiers
    cpc,        \* closer
    mdone, pdone

vars == <<mu, top, mid, base, closed, wch, msig, pings, held, ponged, topWait, baseWait,
          wpc, wdone, wres, mpc, ppc, llfails, npc, cpc, mdone, pdone>>

Writers == 1..NWriters
Notifiers == 1..NNotifiers
W(w) == w          \* the mutex holder: 0 nobody, w a writer, 100 the persister
Dev(d) == d \in Devs

Init ==
    /\ mu = 0 /\ top = 0 /\ mid = "nil" /\ base = "nil" /\ closed = FALSE
    /\ wch = "nil" /\ msig = FALSE /\ pings = <<>> /\ held = <<>> /\ ponged = {}
    /\ topWait = {} /\ baseWait = FALSE
    /\ wpc = [w \in Writers |-> "idle"] /\ wdone = [w \in Writers |-> 0] /\ wres = [w \in Writers |-> "none"]
    /\ mpc = "loop" /\ ppc = (IF HasLL THEN "lock" ELSE "exited") /\ llfails = 0
    /\ npc = [n \in Notifiers |-> "idle"]
    /\ cpc = (IF WithClose THEN "idle" ELSE "never")
    /\ mdone = FALSE /\ pdone = ~HasLL

-----------------------------------------------------------------------------
(* Writers: ExecuteBatch (collection.go:297-387) *)

WCall(w) ==
    /\ wpc[w] = "idle" /\ wdone[w] < MaxBatches
    /\ wpc' = [wpc EXCEPT ![w] = "lock"]
    /\ UNCHANGED <<mu, top, mid, base, closed, wch, msig, pings, held, ponged, topWait, baseWait, wdone, wres, mpc, ppc, llfails, npc, cpc, mdone, pdone>>

WLock(w) ==     \* m.m.Lock(), also after a condition wake-up
    /\ wpc[w] = "lock" /\ mu = 0
    /\ mu' = W(w)
    /\ wpc' = [wpc EXCEPT ![w] = "check"]
    /\ UNCHANGED <<top, mid, base, closed, wch, msig, pings, held, ponged, topWait, baseWait, wdone, wres, mpc, ppc, llfails, npc, cpc, mdone, pdone>>

WCheck(w) ==    \* the for loop at 340-354 and what follows, up to Unlock
    /\ wpc[w] = "check" /\ mu = W(w)
    /\ IF top >= MaxPre
       THEN IF closed /\ ~Dev("NoClosedCheckInWaitLoop")
            THEN /\ mu' = 0 /\ wpc' = [wpc EXCEPT ![w] = "idle"] /\ wres' = [wres EXCEPT ![w] = "ErrClosed"]
                 /\ wdone' = [wdone EXCEPT ![w] = MaxBatches]
                 /\ UNCHANGED <<top, wch, msig, topWait>>
            ELSE /\ mu' = 0 /\ topWait' = topWait \cup {w} /\ wpc' = [wpc EXCEPT ![w] = "waiting"]   \* Cond.Wait
                 /\ UNCHANGED <<top, wch, msig, wres, wdone>>
       ELSE IF closed
            THEN /\ mu' = 0 /\ wpc' = [wpc EXCEPT ![w] = "idle"] /\ wres' = [wres EXCEPT ![w] = "ErrClosed"]
                 /\ wdone' = [wdone EXCEPT ![w] = MaxBatches]
                 /\ UNCHANGED <<top, wch, msig, topWait>>
            ELSE /\ top' = top + 1
                 /\ (IF wch = "open" THEN wch' = "nil" /\ msig' = TRUE ELSE UNCHANGED <<wch, msig>>)
                 /\ mu' = 0 /\ wpc' = [wpc EXCEPT ![w] = "idle"] /\ wres' = [wres EXCEPT ![w] = "nil"]
                 /\ wdone' = [wdone EXCEPT ![w] = @ + 1]
                 /\ UNCHANGED topWait
    /\ UNCHANGED <<mid, base, closed, pings, held, ponged, baseWait, mpc, ppc, llfails, npc, cpc, mdone, pdone>>

\* a writer woken by Broadcast has to take the mutex again
WWake(w) ==
    /\ wpc[w] = "waiting" /\ w \notin topWait
    /\ wpc' = [wpc EXCEPT ![w] = "lock"]
    /\ UNCHANGED <<mu, top, mid, base, closed, wch, msig, pings, held, ponged, topWait, baseWait, wdone, wres, mpc, ppc, llfails, npc, cpc, mdone, pdone>>

-----------------------------------------------------------------------------
(* The merger (collection_merger.go) *)

Pong(ps) == {p.from : p \in {ps[i] : i \in 1..Len(ps)}}

MLoop ==        \* replyToPings from the previous loop
    /\ mpc = "loop"
    /\ ponged' = ponged \cup Pong(held) /\ held' = <<>>
    /\ mpc' = "wfw"
    /\ UNCHANGED <<mu, top, mid, base, closed, wch, msig, pings, topWait, baseWait, wpc, wdone, wres, ppc, llfails, npc, cpc, mdone, pdone>>

MWaitForWork == \* mergerWaitForWork 208-215: under the lock
    /\ mpc = "wfw" /\ mu = 0
    /\ IF top = 0 THEN wch' = "open" /\ msig' = FALSE /\ mpc' = "select"
       ELSE UNCHANGED <<wch, msig>> /\ mpc' = "drain"
    /\ UNCHANGED <<mu, top, mid, base, closed, pings, held, ponged, topWait, baseWait, wpc, wdone, wres, ppc, llfails, npc, cpc, mdone, pdone>>

MSelectStop ==  \* case <-m.stopCh
    /\ mpc = "select" /\ closed
    \* deferred replyToPings: the pings the merger has received.  Pings still queued in
    \* the channel are never answered; their senders give up when the merger's done
    \* channel is closed (see NPong) -- as first written they waited for ever.
    /\ ponged' = ponged \cup Pong(held) /\ pings' = pings
    /\ held' = <<>>
    /\ mpc' = "exited" /\ mdone' = TRUE
    /\ UNCHANGED <<mu, top, mid, base, closed, wch, msig, topWait, baseWait, wpc, wdone, wres, ppc, llfails, npc, cpc, pdone>>

MSelectPing ==  \* case pingVal := <-m.pingMergerCh
    /\ mpc = "select" /\ Len(pings) > 0
    /\ held' = Append(held, Head(pings)) /\ pings' = Tail(pings)
    /\ mpc' = "drain"
    /\ UNCHANGED <<mu, top, mid, base, closed, wch, msig, ponged, topWait, baseWait, wpc, wdone, wres, ppc, llfails, npc, cpc, mdone, pdone>>

MSelectIncoming ==  \* case <-waitDirtyIncomingCh
    /\ mpc = "select" /\ msig
    /\ mpc' = "drain"
    /\ UNCHANGED <<mu, top, mid, base, closed, wch, msig, pings, held, ponged, topWait, baseWait, wpc, wdone, wres, ppc, llfails, npc, cpc, mdone, pdone>>

MDrain ==       \* receivePings: everything that is queued, without blocking
    /\ mpc = "drain"
    /\ held' = held \o pings /\ pings' = <<>>
    /\ mpc' = "ingest"
    /\ UNCHANGED <<mu, top, mid, base, closed, wch, msig, ponged, topWait, baseWait, wpc, wdone, wres, ppc, llfails, npc, cpc, mdone, pdone>>

MIngest ==      \* the snapshot callback 98-124: under the lock; wakes blocked writers
    /\ mpc = "ingest" /\ mu = 0
    /\ mid' = IF top > 0 \/ mid = "full" THEN "full" ELSE "empty"
    /\ top' = 0
    /\ topWait' = IF Dev("IngestDoesNotBroadcast") THEN topWait ELSE {}
    /\ mpc' = "swap"
    /\ UNCHANGED <<mu, base, closed, wch, msig, pings, held, ponged, baseWait, wpc, wdone, wres, ppc, llfails, npc, cpc, mdone, pdone>>

MSwap ==        \* mergerMain's critical section
    /\ mpc = "swap" /\ mu = 0
    /\ mpc' = IF HasLL THEN "handoff" ELSE "loop"
    /\ UNCHANGED <<mu, top, mid, base, closed, wch, msig, pings, held, ponged, topWait, baseWait, wpc, wdone, wres, ppc, llfails, npc, cpc, mdone, pdone>>

MHandoff ==     \* mergerNotifyPersister 326-348
    /\ mpc = "handoff" /\ mu = 0
    /\ IF base = "nil" /\ mid # "nil"
       THEN base' = mid /\ mid' = "nil" /\ baseWait' = FALSE      \* Broadcast
       ELSE UNCHANGED <<base, mid, baseWait>>
    /\ mpc' = "loop"
    /\ UNCHANGED <<mu, top, closed, wch, msig, pings, held, ponged, topWait, wpc, wdone, wres, ppc, llfails, npc, cpc, mdone, pdone>>

-----------------------------------------------------------------------------
(* The persister (persister.go) *)

PLock ==
    /\ ppc = "lock" /\ mu = 0
    /\ mu' = 100 /\ ppc' = "check"
    /\ UNCHANGED <<top, mid, base, closed, wch, msig, pings, held, ponged, topWait, baseWait, wpc, wdone, wres, mpc, llfails, npc, cpc, mdone, pdone>>

\* the wait loop 34-56, holding the mutex
PCheck ==
    /\ ppc = "check" /\ mu = 100
    /\ IF base = "nil" /\ ~closed
       THEN IF wch # "nil" /\ mid = "full" /\ top = 0 /\ ~Dev("PersisterDoesNotNotify")
            THEN ppc' = "notify" /\ UNCHANGED <<mu, baseWait>>
            ELSE mu' = 0 /\ baseWait' = TRUE /\ ppc' = "waiting"       \* Cond.Wait
       ELSE mu' = 0 /\ ppc' = "captured" /\ UNCHANGED baseWait
    /\ UNCHANGED <<top, mid, base, closed, wch, msig, pings, held, ponged, topWait, wpc, wdone, wres, mpc, llfails, npc, cpc, mdone, pdone>>

\* m.NotifyMerger("from-persister", false) -- a channel send that blocks when the
\* ping channel is full, executed while the collection mutex is held (persister.go:47-51).
\* In the intended design the notification never blocks under the mutex.
PNotify ==
    /\ ppc = "notify" /\ mu = 100
    /\ IF Len(pings) < PingCap
       THEN pings' = Append(pings, [from |-> 0, sync |-> FALSE])
       ELSE /\ ~Dev("PersisterNotifyBlocksUnderLock")     \* dropped when the channel is full
            /\ pings' = pings
    /\ mu' = 0 /\ baseWait' = TRUE /\ ppc' = "waiting"
    /\ UNCHANGED <<top, mid, base, closed, wch, msig, held, ponged, topWait, wpc, wdone, wres, mpc, llfails, npc, cpc, mdone, pdone>>

PWake ==
    /\ ppc = "waiting" /\ ~baseWait
    /\ ppc' = "lock"
    /\ UNCHANGED <<mu, top, mid, base, closed, wch, msig, pings, held, ponged, topWait, baseWait, wpc, wdone, wres, mpc, llfails, npc, cpc, mdone, pdone>>

PAfterCapture ==    \* 62-64
    /\ ppc = "captured"
    /\ IF closed THEN ppc' = "exited" /\ pdone' = TRUE ELSE ppc' = "update" /\ pdone' = pdone
    /\ UNCHANGED <<mu, top, mid, base, closed, wch, msig, pings, held, ponged, topWait, baseWait, wpc, wdone, wres, mpc, llfails, npc, cpc, mdone>>

PUpdateOk ==        \* LowerLevelUpdate returned a snapshot
    /\ ppc = "update"
    /\ ppc' = "swaplock"
    /\ UNCHANGED <<mu, top, mid, base, closed, wch, msig, pings, held, ponged, topWait, baseWait, wpc, wdone, wres, mpc, llfails, npc, cpc, mdone, pdone>>

PUpdateFail ==      \* LowerLevelUpdate failed: OnError, retry
    /\ ppc = "update" /\ llfails < MaxLLFails
    /\ llfails' = llfails + 1
    /\ ppc' = "lock"
    /\ UNCHANGED <<mu, top, mid, base, closed, wch, msig, pings, held, ponged, topWait, baseWait, wpc, wdone, wres, mpc, npc, cpc, mdone, pdone>>

PSwap ==            \* 86-106
    /\ ppc = "swaplock" /\ mu = 0
    /\ base' = "nil"
    /\ ppc' = "lock"
    /\ UNCHANGED <<mu, top, mid, closed, wch, msig, pings, held, ponged, topWait, baseWait, wpc, wdone, wres, mpc, llfails, npc, cpc, mdone, pdone>>

-----------------------------------------------------------------------------
(* Notifiers: NotifyMerger(kind, synchronous) *)

NSend(n) ==
    /\ npc[n] = "idle"
    /\ IF Len(pings) < PingCap
       THEN /\ pings' = Append(pings, [from |-> n, sync |-> SyncNotify])
            /\ npc' = [npc EXCEPT ![n] = IF SyncNotify THEN "pong" ELSE "done"]
       ELSE /\ mdone /\ ~Dev("ExitIgnoresQueuedPings")     \* case <-m.doneMergerCh: ErrClosed
            /\ pings' = pings /\ npc' = [npc EXCEPT ![n] = "done"]
    /\ UNCHANGED <<mu, top, mid, base, closed, wch, msig, held, ponged, topWait, baseWait, wpc, wdone, wres, mpc, ppc, llfails, cpc, mdone, pdone>>

NPong(n) ==
    /\ npc[n] = "pong"
    /\ n \in ponged \/ (mdone /\ ~Dev("ExitIgnoresQueuedPings"))
    /\ npc' = [npc EXCEPT ![n] = "done"]
    /\ UNCHANGED <<mu, top, mid, base, closed, wch, msig, pings, held, ponged, topWait, baseWait, wpc, wdone, wres, mpc, ppc, llfails, cpc, mdone, pdone>>

-----------------------------------------------------------------------------
(* The closer: Close() (collection.go:122-181) *)

CBegin ==
    /\ cpc = "idle" /\ mu = 0
    /\ closed' = TRUE
    /\ topWait' = {} /\ baseWait' = FALSE           \* both Broadcasts
    /\ cpc' = "waitmerger"
    /\ UNCHANGED <<mu, top, mid, base, wch, msig, pings, held, ponged, wpc, wdone, wres, mpc, ppc, llfails, npc, mdone, pdone>>

CWaitMerger ==
    /\ cpc = "waitmerger" /\ mdone
    /\ cpc' = "waitpersister"
    /\ UNCHANGED <<mu, top, mid, base, closed, wch, msig, pings, held, ponged, topWait, baseWait, wpc, wdone, wres, mpc, ppc, llfails, npc, mdone, pdone>>

CWaitPersister ==
    /\ cpc = "waitpersister" /\ pdone
    /\ cpc' = "final"
    /\ UNCHANGED <<mu, top, mid, base, closed, wch, msig, pings, held, ponged, topWait, baseWait, wpc, wdone, wres, mpc, ppc, llfails, npc, mdone, pdone>>

CFinal ==
    /\ cpc = "final" /\ mu = 0
    /\ top' = 0 /\ mid' = "nil" /\ base' = "nil"
    /\ cpc' = "done"
    /\ UNCHANGED <<mu, closed, wch, msig, pings, held, ponged, topWait, baseWait, wpc, wdone, wres, mpc, ppc, llfails, npc, mdone, pdone>>

-----------------------------------------------------------------------------
Next ==
    \/ \E w \in Writers : WCall(w) \/ WLock(w) \/ WCheck(w) \/ WWake(w)
    \/ MLoop \/ MWaitForWork \/ MSelectStop \/ MSelectPing \/ MSelectIncoming \/ MDrain \/ MIngest \/ MSwap \/ MHandoff
    \/ PLock \/ PCheck \/ PNotify \/ PWake \/ PAfterCapture \/ PUpdateOk \/ PUpdateFail \/ PSwap
    \/ \E n \in Notifiers : NSend(n) \/ NPong(n)
    \/ CBegin \/ CWaitMerger \/ CWaitPersister \/ CFinal

Fairness ==
    /\ \A w \in Writers : WF_vars(WLock(w)) /\ WF_vars(WCheck(w)) /\ WF_vars(WWake(w)) /\ WF_vars(WCall(w))
    /\ WF_vars(MLoop) /\ WF_vars(MWaitForWork) /\ WF_vars(MSelectStop \/ MSelectPing \/ MSelectIncoming) /\ WF_vars(MDrain)
    /\ WF_vars(MIngest) /\ WF_vars(MSwap) /\ WF_vars(MHandoff)
    /\ WF_vars(PLock) /\ WF_vars(PCheck) /\ WF_vars(PNotify) /\ WF_vars(PWake) /\ WF_vars(PAfterCapture) /\ WF_vars(PUpdateOk) /\ WF_vars(PSwap)
    /\ \A n \in Notifiers : WF_vars(NSend(n)) /\ WF_vars(NPong(n))
    /\ WF_vars(CBegin) /\ WF_vars(CWaitMerger) /\ WF_vars(CWaitPersister) /\ WF_vars(CFinal)

Spec == Init /\ [][Next]_vars /\ Fairness

-----------------------------------------------------------------------------
(* C16 *)

\* the number of accepted but unmerged batches never exceeds MaxPreMergerBatches
TopBounded == top <= MaxPre

\* the mutex is never held by a goroutine that is blocked on something else for good:
\* checked as deadlock freedom below (TLC's deadlock check with a legitimate end state)
AllDone ==
    /\ \A w \in Writers : wpc[w] = "idle" /\ wdone[w] = MaxBatches
    /\ \A n \in Notifiers : npc[n] = "done"
    /\ cpc \in {"done", "never"}
Quiescent ==    \* without Close: everything executed, nothing queued, background goroutines asleep
    /\ \A w \in Writers : wpc[w] = "idle" /\ wdone[w] = MaxBatches
    /\ \A n \in Notifiers : npc[n] = "done"
NoDeadlock == (ENABLED Next) \/ AllDone \/ (cpc = "never" /\ Quiescent)

\* after Close has returned nothing is accepted any more
ClosedIsFinal == [][cpc = "done" => (top' = 0 /\ \A w \in Writers : wpc[w] = "check" /\ wpc'[w] = "idle" => wres'[w] = "ErrClosed")]_vars

\* liveness: every call returns
WritersReturn == \A w \in Writers : []<>(wpc[w] = "idle")
WritersFinish == <>(\A w \in Writers : wdone[w] = MaxBatches)
NotifiersReturn == \A n \in Notifiers : (npc[n] = "pong") ~> (npc[n] = "done")
CloseReturns == (cpc # "never") => <>(cpc = "done")
\* writers blocked on back-pressure when Close is called are released with ErrClosed (or got through)
BlockedWritersReleased == \A w \in Writers : (wpc[w] = "waiting" /\ closed) ~> (wpc[w] = "idle")

=============================================================================
