------------------------------- MODULE TraceVis -------------------------------
(***************************************************************************)
(* Trace validation of recorded concurrent executions against MossVis      *)
(* (direction B).  The trace is an ndjson file of events with sequence     *)
(* numbers taken under the collection lock (hook events) or from the same  *)
(* counter (call / return events of the driver), pre-projected to a fixed  *)
(* record shape by bin/check_conc.py:                                      *)
(*   [ev, w, i, id, p, vec, val, alt, ok]                                  *)
(* (alt: the other prefix a top-level marker can stand for when the next   *)
(* batch of that writer touches only the child collection; else = val)     *)
(* Several runs are concatenated, separated by "reset" events.             *)
(***************************************************************************)
EXTENDS Integers, Sequences, FiniteSets, TLC, Json

CONSTANTS TraceFile, NW, MaxSeq, MaxPtr,
          MaxR      \* readers / getters are numbered 1..MaxR

Trace == ndJsonDeserialize(TraceFile)

VARIABLES executed, returned,
          at,       \* [0..MaxPtr -> vector] what the snapshot object with that address held when it was last handed out
          snapv,    \* [reader -> vector] content of the snapshot the reader holds
          lo,       \* [reader -> vector] what had returned when its Snapshot call started
          glo,      \* [getter -> Nat] returned[w] when its Get call started
          l         \* position in Trace

tvars == <<executed, returned, at, snapv, lo, glo, l>>

Zero == [w \in 1..NW |-> 0]

TInit ==
    /\ executed = Zero /\ returned = Zero
    /\ at = [p \in 0..MaxPtr |-> Zero]
    /\ snapv = [r \in 1..MaxR |-> Zero] /\ lo = [r \in 1..MaxR |-> Zero] /\ glo = [g \in 1..MaxR |-> 0]
    /\ l = 1

E == Trace[l]
Is(e) == l <= Len(Trace) /\ E.ev = e
Step == l' = l + 1

\* exec.push: batches of one writer are pushed in order, one at a time
TPush ==
    /\ Is("push")
    /\ E.i = executed[E.w] + 1
    /\ executed' = [executed EXCEPT ![E.w] = E.i]
    /\ Step /\ UNCHANGED <<returned, at, snapv, lo, glo>>

\* ExecuteBatch returned nil: its push happened before
TExecRet ==
    /\ Is("execret")
    /\ IF E.ok THEN executed[E.w] = E.i /\ returned' = [returned EXCEPT ![E.w] = E.i]
       ELSE returned' = returned
    /\ Step /\ UNCHANGED <<executed, at, snapv, lo, glo>>

TSnapCall ==
    /\ Is("snapcall")
    /\ lo' = [lo EXCEPT ![E.id] = returned]
    /\ Step /\ UNCHANGED <<executed, returned, at, snapv, glo>>

\* coll.snapshot: the snapshot object p is handed out now (freshly cloned or cached)
TSnapHook ==
    /\ Is("snaphook")
    /\ at' = [at EXCEPT ![E.p] = executed]
    /\ Step /\ UNCHANGED <<executed, returned, snapv, lo, glo>>

\* Snapshot returned object p: it holds what p held at its last hand-out, and that
\* includes everything that had returned when the call started
TSnapRet ==
    /\ Is("snapret")
    /\ \A w \in 1..NW : at[E.p][w] >= lo[E.id][w]
    /\ snapv' = [snapv EXCEPT ![E.id] = at[E.p]]
    /\ Step /\ UNCHANGED <<executed, returned, at, lo, glo>>

\* a (re-)read of snapshot id: atomic per batch, a prefix per writer, frozen
TRead ==
    /\ Is("read")
    /\ E.vec = snapv[E.id]
    /\ Step /\ UNCHANGED <<executed, returned, at, snapv, lo, glo>>

\* Collection.Get(marker of writer w): at least what had returned when the call
\* started, at most what has been pushed when it returns
TGetCall ==
    /\ Is("getcall")
    /\ glo' = [glo EXCEPT ![E.id] = returned[E.w]]
    /\ Step /\ UNCHANGED <<executed, returned, at, snapv, lo>>
TGetRet ==
    /\ Is("getret")
    /\ \E v \in {E.val, E.alt} : glo[E.id] <= v /\ v <= executed[E.w]
    /\ Step /\ UNCHANGED <<executed, returned, at, snapv, lo, glo>>

TReset ==
    /\ Is("reset")
    /\ executed' = Zero /\ returned' = Zero
    /\ at' = [p \in 0..MaxPtr |-> Zero]
    /\ snapv' = [r \in 1..MaxR |-> Zero] /\ lo' = [r \in 1..MaxR |-> Zero] /\ glo' = [g \in 1..MaxR |-> 0]
    /\ Step

TNext == TPush \/ TExecRet \/ TSnapCall \/ TSnapHook \/ TSnapRet \/ TRead \/ TGetCall \/ TGetRet \/ TReset

TSpec == TInit /\ [][TNext]_tvars

\* the invariants of MossVis, evaluated at every step of every real execution
TConsistent == \A w \in 1..NW : returned[w] <= executed[w] /\ executed[w] <= MaxSeq
TSnapsArePrefixes == \A r \in 1..MaxR : \A w \in 1..NW : snapv[r][w] \in 0..executed[w]

\* acceptance: the whole trace was consumed
Mark == TLCSet(1, l)
Accepted == TLCGet(1) = Len(Trace) + 1 \/ (PrintT(<<"REJECTED-AT", TLCGet(1)>>) /\ FALSE)
=============================================================================
