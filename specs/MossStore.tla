------------------------------ MODULE MossStore ------------------------------
(***************************************************************************)
(* mossStore: an append-only data file of page-aligned records (header,    *)
(* segments, footers), full compaction into a new file, partial (leveled)  *)
(* compaction into the same file, history walking (SnapshotPrevious),      *)
(* revert, file removal once unreferenced, crash, I/O failure and recovery *)
(* (openStore / ScanFooter), and read-only opens.                          *)
(*                                                                         *)
(* Every file operation of store.go / store_footer.go / store_compact.go / *)
(* store_revert.go is one action, so that Crash, IOFail and snapshots can  *)
(* interleave between any two.  Content is abstract here: the batches are  *)
(* numbered 1, 2, ... and a segment carries the interval of batches merged *)
(* into it (the key-level semantics of segments is MossColl's business and *)
(* is bound to the code by the store-backed replays of MossColl).          *)
(***************************************************************************)
EXTENDS Integers, Sequences, FiniteSets, TLC, Json

CONSTANTS
    NKeys,          \* keys 1..NKeys written by the abstract batches (see BatchOp)
    MaxBatches,     \* batches 1..MaxBatches
    MaxFiles,       \* data files 1..MaxFiles (file sequence numbers)
    MaxRecs,        \* bound on records per file
    NoSync,         \* StorePersistOptions.NoSync
    Kinds,          \* SUBSET {"append", "full", "partial"}: what a round may do
    MaxFaults,      \* number of I/O failures that may be injected
    MaxCrashes,     \* number of crashes (each followed by recovery)
    MaxSnaps,       \* store snapshots held open (keep superseded files alive)
    MaxReverts,
    MaxReopens,     \* bound on close/reopen cycles
    AllowReadOnly,  \* a read-only open may follow a close
    WithKids,       \* every footer also has child-collection footers (with their own segment mappings)
    Devs            \* deviations of the code from the intended design

VARIABLES
    nb,             \* batches executed so far (the collection above the store)
    files,          \* [1..MaxFiles -> [ex: BOOLEAN, recs: Seq(Rec)]]
    cur,            \* the store's current footer: [file, pos, segs, upto, prev]; file = 0: empty store
    open,           \* the store is open
    ro,             \* opened read-only
    pc,             \* round in flight: [k: kind, s: step, f: file, seg: rec index, upto, splice]
    snaps,          \* [1..MaxSnaps -> footer or NoFooter] open store snapshots
    rm,             \* files scheduled for removal when unreferenced (removeFileOnClose)
    synced,         \* upto of the last round that completed with syncing enabled
    errs,           \* errors surfaced by Persist / OpenStore
    lastRound,      \* "ok" | "err" | "none" | "idle": outcome of the last round ("idle": an idle round found nothing to do)
    pend,           \* upto of a failed round that the persister will retry (0: none)
    faults, crashes, reverts, reopens,
    nextSeq,        \* Store.nextFNameSeq: file sequence numbers are never reused while the store is open
    leak,           \* files whose mappings are pinned for good by child-footer segments that were never released
    hist

vars == <<nb, files, cur, open, ro, pc, snaps, rm, synced, errs, lastRound, pend, faults, crashes, reverts, reopens, nextSeq, leak, hist>>
view == <<nb, files, cur, open, ro, pc, snaps, rm, synced, errs, lastRound, pend, faults, crashes, reverts, reopens, nextSeq, leak>>

\* What batch n does to key k: "set" (value n), "del" or "none".  Batch n sets key
\* ((n-1) % NKeys)+1 and, when n is even, deletes the next key, so that overwrites and
\* deletion markers exist; the replay driver writes exactly these batches.
BatchOp(n, k) == IF k = ((n - 1) % NKeys) + 1 THEN "set"
                 ELSE IF n % 2 = 0 /\ k = (n % NKeys) + 1 THEN "del" ELSE "none"
RECURSIVE ValUpto(_, _)
ValUpto(u, k) == IF u = 0 THEN 0
                 ELSE CASE BatchOp(u, k) = "set" -> u [] BatchOp(u, k) = "del" -> 0 [] OTHER -> ValUpto(u - 1, k)
ContentUpto(u) == [k \in 1..NKeys |-> ValUpto(u, k)]     \* 0 = absent

Dev(d) == d \in Devs

-----------------------------------------------------------------------------
(* Records.  k: "hdr" | "seg" | "ftr".
   st: "ok" (written completely), "bad" (a failed or short write left garbage),
       "torn" (crash: partially on disk).
   sy: durable (a Sync of the file happened after the write).
   seg: lo..hi interval of batches, dels: deletion markers retained.
   ftr: segs (indices of seg records of the same file, oldest first), prev (index of
        the previous footer record in the same file, 0 = none), upto. *)

Hdr == [k |-> "hdr", st |-> "ok", sy |-> FALSE, lo |-> 0, hi |-> 0, dels |-> FALSE, segs |-> <<>>, prev |-> 0, upto |-> 0]
Seg(lo, hi, dels) == [Hdr EXCEPT !.k = "seg", !.lo = lo, !.hi = hi, !.dels = dels]
Ftr(segs, prev, upto) == [Hdr EXCEPT !.k = "ftr", !.segs = segs, !.prev = prev, !.upto = upto]

NoFooter == [file |-> 0, pos |-> 0, segs |-> <<>>, upto |-> 0, prev |-> 0]
NoPc == [k |-> "idle", s |-> 0, f |-> 0, seg |-> 0, upto |-> 0, splice |-> 0, ftr |-> 0]

Recs(f) == files[f].recs
Append2(f, r) == [files EXCEPT ![f].recs = Append(@, r)]
SyncFile(fs, f) == [fs EXCEPT ![f].recs = [i \in 1..Len(@) |-> [@[i] EXCEPT !.sy = TRUE]]]

\* The batches a footer covers, derived from its segments: they must tile 1..upto.
RECURSIVE Tiles(_, _, _, _)
Tiles(f, segs, i, from) ==
    IF i > Len(segs) THEN from
    ELSE LET r == Recs(f)[segs[i]] IN
         IF r.k = "seg" /\ r.st = "ok" /\ r.lo = from + 1 /\ r.hi >= r.lo THEN Tiles(f, segs, i + 1, r.hi) ELSE -1
Readable(ft) == ft.file = 0 \/ Tiles(ft.file, ft.segs, 1, 0) = ft.upto

Refs(f) == (IF cur.file = f THEN 1 ELSE 0) + Cardinality({i \in 1..MaxSnaps : snaps[i].file = f})
          + (IF pc.k # "idle" /\ pc.f = f THEN 1 ELSE 0) + (IF f \in leak THEN 1 ELSE 0)

\* Footer.DecRef releases the footer's own segment locations; the mappings of its
\* ChildFooters are released too in the intended design.  As first written they were
\* not: when the last reference to a footer with child footers goes, the file stays
\* mapped (and open) for the rest of the process.
LeakAfter(ft, cur2, snaps2) ==
    IF WithKids /\ Dev("ChildFootersNotReleased") /\ ft.file # 0 /\ ft # cur2 /\ \A i \in 1..MaxSnaps : snaps2[i] # ft
    THEN leak \cup {ft.file} ELSE leak

MaxExisting(fs) == IF \E f \in 1..MaxFiles : fs[f].ex
                   THEN CHOOSE f \in 1..MaxFiles : fs[f].ex /\ \A g \in 1..MaxFiles : fs[g].ex => g <= f
                   ELSE 0
NextFile == nextSeq

-----------------------------------------------------------------------------
Init ==
    /\ nb = 0
    /\ files = [f \in 1..MaxFiles |-> [ex |-> FALSE, recs |-> <<>>]]
    /\ cur = NoFooter
    /\ open = TRUE /\ ro = FALSE
    /\ pc = NoPc
    /\ snaps = [i \in 1..MaxSnaps |-> NoFooter]
    /\ rm = {}
    /\ synced = 0 /\ errs = 0 /\ lastRound = "none" /\ pend = 0
    /\ faults = 0 /\ crashes = 0 /\ reverts = 0 /\ reopens = 0
    /\ nextSeq = 1 /\ leak = {}
    /\ hist = <<>>

Log(a, arg) == hist' = Append(hist, [act |-> a, arg |-> arg,
                    exp |-> [upto |-> cur'.upto, nsegs |-> Len(cur'.segs), file |-> cur'.file, nb |-> nb',
                             errs |-> errs', last |-> lastRound', open |-> open', synced |-> synced',
                             st |-> ContentUpto(cur'.upto), co |-> ContentUpto(nb'),
                             sn |-> [i \in 1..MaxSnaps |-> [on |-> snaps'[i] # NoFooter, upto |-> snaps'[i].upto,
                                                             c |-> ContentUpto(snaps'[i].upto)]],
                             ex |-> [f \in 1..MaxFiles |-> files'[f].ex],
                             keep |-> [f \in 1..MaxFiles |-> files'[f].ex /\ ~(f \in rm' /\ Refs(f)' = 0)]]])

\* A batch is executed on the collection above the store.
NewBatch ==
    /\ open /\ ~ro /\ pc.k = "idle" /\ nb < MaxBatches
    /\ nb' = nb + 1
    /\ UNCHANGED <<files, cur, open, ro, pc, snaps, rm, synced, errs, lastRound, pend, faults, crashes, reverts, reopens, nextSeq, leak>>
    /\ Log("NewBatch", [n |-> nb + 1, ops |-> [k \in 1..NKeys |-> BatchOp(nb + 1, k)]])

-----------------------------------------------------------------------------
(* A persistence round (Store.persist / compactMaybe / compact).
   steps:  1 file (reuse or create+header)  2 write segment  3 sync  4 write footer
           5 sync  6 swap (publish)                                            *)

CanReuse == cur.file # 0 /\ Len(cur.segs) > 0      \* startOrReuseFile

Begin(kind, splice) ==
    /\ open /\ ~ro /\ pc.k = "idle" /\ kind \in Kinds
    /\ \/ nb > cur.upto     \* the persister has a non-empty stack to hand down
       \* idle compaction: the stack handed down is empty (idle merger run, NotifyMerger), compaction
       \* is asked for and the footer has several segments -- a full compaction of what is persisted
       \/ (kind = "full" /\ nb = cur.upto /\ pend = 0 /\ Len(cur.segs) > 1)
    /\ kind = "partial" => (splice \in 1..(Len(cur.segs) - 1) /\ nb > cur.upto)
    /\ kind # "partial" => splice = 0
    /\ pc' = [NoPc EXCEPT !.k = kind, !.s = 1, !.upto = IF pend > 0 THEN pend ELSE nb, !.splice = splice]
    /\ lastRound' = "none"
    /\ UNCHANGED <<nb, files, cur, open, ro, snaps, rm, synced, errs, pend, faults, crashes, reverts, reopens, nextSeq, leak>>
    /\ Log("Begin", [kind |-> kind, splice |-> splice, idle |-> (nb = cur.upto)])

\* An idle round that has nothing to do: the persister hands down an empty stack and Store.Persist
\* finds no compaction to perform -- none asked for ("still clean"), or at most one segment in the
\* footer (compact() returns ErrNothingToCompact, which compactMaybe swallows).  Nothing may change:
\* not the footer, not the files, and no file is scheduled for removal.
IdleRound(kind) ==
    /\ open /\ ~ro /\ pc.k = "idle" /\ kind \in Kinds \ {"partial"}
    /\ nb = cur.upto /\ pend = 0 /\ cur.file # 0
    /\ kind = "full" => Len(cur.segs) <= 1
    /\ lastRound # "idle"
    /\ lastRound' = "idle"
    /\ UNCHANGED <<nb, files, cur, open, ro, pc, snaps, rm, synced, errs, pend, faults, crashes, reverts, reopens, nextSeq, leak>>
    /\ Log("IdleRound", [kind |-> kind])

\* step 1: startOrReuseFile / startFileLOCKED (create + persistHeader)
StepFile ==
    /\ pc.s = 1
    /\ IF pc.k # "full" /\ CanReuse
       THEN /\ pc' = [pc EXCEPT !.s = 2, !.f = cur.file]
            /\ files' = files /\ nextSeq' = nextSeq
       ELSE /\ NextFile <= MaxFiles
            /\ files' = [files EXCEPT ![NextFile] = [ex |-> TRUE, recs |-> <<Hdr>>]]
            /\ pc' = [pc EXCEPT !.s = 2, !.f = NextFile]
            /\ nextSeq' = nextSeq + 1
    /\ UNCHANGED <<nb, cur, open, ro, snaps, rm, synced, errs, lastRound, pend, faults, crashes, reverts, reopens, leak, hist>>

\* step 2: persistSegments / writeSegments
StepSeg ==
    /\ pc.s = 2 /\ Len(Recs(pc.f)) < MaxRecs
    /\ LET lo == CASE pc.k = "append" -> cur.upto + 1
                   [] pc.k = "full" -> 1
                   [] pc.k = "partial" -> Recs(cur.file)[cur.segs[pc.splice + 1]].lo
           r == Seg(lo, pc.upto, pc.k = "partial")
       IN IF lo > pc.upto
          THEN /\ files' = files /\ pc' = [pc EXCEPT !.s = 3, !.seg = 0]     \* nothing to write (idle compaction of one segment is refused earlier)
          ELSE /\ files' = Append2(pc.f, r)
               /\ pc' = [pc EXCEPT !.s = 3, !.seg = Len(Recs(pc.f)) + 1]
    /\ UNCHANGED <<nb, cur, open, ro, snaps, rm, synced, errs, lastRound, pend, faults, crashes, reverts, reopens, nextSeq, leak, hist>>

\* steps 3 and 5: persistFooter's syncs (skipped with NoSync)
StepSync ==
    /\ pc.s \in {3, 5}
    /\ files' = IF NoSync \/ (pc.s = 3 /\ Dev("NoSyncBeforeFooter")) THEN files ELSE SyncFile(files, pc.f)
    /\ pc' = [pc EXCEPT !.s = pc.s + 1]
    /\ UNCHANGED <<nb, cur, open, ro, snaps, rm, synced, errs, lastRound, pend, faults, crashes, reverts, reopens, nextSeq, leak, hist>>

NewSegs ==
    CASE pc.k = "append"  -> cur.segs \o (IF pc.seg = 0 THEN <<>> ELSE <<pc.seg>>)
      [] pc.k = "full"    -> IF pc.seg = 0 THEN <<>> ELSE <<pc.seg>>
      [] pc.k = "partial" -> SubSeq(cur.segs, 1, pc.splice) \o <<pc.seg>>

\* step 4: persistFooterUnsynced
StepFooter ==
    /\ pc.s = 4 /\ Len(Recs(pc.f)) < MaxRecs
    /\ LET prev == IF pc.k = "append" /\ pc.f = cur.file THEN cur.pos ELSE 0 IN
       files' = Append2(pc.f, Ftr(NewSegs, prev, pc.upto))
    /\ pc' = [pc EXCEPT !.s = 5, !.ftr = Len(Recs(pc.f)) + 1]
    /\ UNCHANGED <<nb, cur, open, ro, snaps, rm, synced, errs, lastRound, pend, faults, crashes, reverts, reopens, nextSeq, leak, hist>>

\* step 6: publish the footer; a full compaction schedules the old file for removal.
StepSwap ==
    /\ pc.s = 6
    /\ cur' = [file |-> pc.f, pos |-> pc.ftr, segs |-> NewSegs, upto |-> pc.upto,
               prev |-> IF pc.k = "append" /\ pc.f = cur.file THEN cur.pos ELSE 0]
    /\ rm' = IF pc.k = "full" /\ cur.file # 0 /\ cur.file # pc.f THEN rm \cup {cur.file} ELSE rm
    /\ synced' = IF NoSync THEN synced ELSE pc.upto
    /\ pc' = NoPc
    /\ lastRound' = "ok"
    /\ pend' = 0
    /\ leak' = LeakAfter(cur, cur', snaps)
    /\ UNCHANGED <<nb, files, open, ro, snaps, errs, faults, crashes, reverts, reopens, nextSeq>>
    /\ Log("RoundOk", [kind |-> pc.k])

\* A file whose last reference is gone is removed (asynchronously in the code).
RemoveFile(f) ==
    /\ f \in rm /\ files[f].ex /\ Refs(f) = 0
    /\ files' = [files EXCEPT ![f] = [ex |-> FALSE, recs |-> <<>>]]
    /\ rm' = rm \ {f}
    /\ UNCHANGED <<nb, cur, open, ro, pc, snaps, synced, errs, lastRound, pend, faults, crashes, reverts, reopens, nextSeq, leak, hist>>

-----------------------------------------------------------------------------
(* I/O failures: the pending file operation of the round fails.  The write
   steps may leave garbage ("bad" record); the round is abandoned, the error
   is surfaced and nothing is published.  As written, a failed segment write
   of a *compaction* is not noticed (file.go:207 shadows err): the round goes
   on and publishes a footer over the bad segment.                           *)
IOFail ==
    /\ pc.k # "idle" /\ pc.s \in 1..5 /\ faults < MaxFaults
    /\ pc.s = 1 => ~(pc.k # "full" /\ CanReuse)       \* reusing the file is not a file operation
    /\ pc.s \in {3, 5} => ~NoSync
    /\ faults' = faults + 1
    /\ IF pc.s = 2 /\ pc.k # "append" /\ Dev("CompactionWriteErrorsDropped") /\ Len(Recs(pc.f)) < MaxRecs
       THEN \* the error is dropped: a bad segment record, the round continues
            /\ files' = Append2(pc.f, [Seg(1, pc.upto, FALSE) EXCEPT !.st = "bad"])
            /\ pc' = [pc EXCEPT !.s = 3, !.seg = Len(Recs(pc.f)) + 1]
            /\ UNCHANGED <<errs, lastRound, rm, pend>>
       ELSE /\ files' = IF pc.s \in {2, 4} /\ Len(Recs(pc.f)) < MaxRecs
                        THEN Append2(pc.f, [Hdr EXCEPT !.k = IF pc.s = 2 THEN "seg" ELSE "ftr", !.st = "bad"])
                        ELSE files
            /\ pc' = NoPc
            /\ errs' = errs + 1
            /\ lastRound' = "err"
            /\ pend' = pc.upto
            \* a compaction file that was started is scheduled for removal
            /\ rm' = IF pc.k = "full" /\ pc.s > 1 THEN rm \cup {pc.f} ELSE rm
    /\ nextSeq' = IF pc.s = 1 THEN nextSeq + 1 ELSE nextSeq     \* createNextFileLOCKED consumes the sequence number first
    /\ UNCHANGED <<nb, cur, open, ro, snaps, synced, crashes, reverts, reopens, leak>>
    /\ Log("IOFail", [kind |-> pc.k, step |-> pc.s, newfile |-> (pc.k = "full" \/ ~CanReuse),
                       pre |-> [j \in 1..(nb + 1) |-> ContentUpto(j - 1)]])

-----------------------------------------------------------------------------
(* Store snapshots, history and revert. *)

TakeSnap(i) ==
    /\ open /\ snaps[i] = NoFooter /\ cur.file # 0
    /\ snaps' = [snaps EXCEPT ![i] = cur]
    /\ UNCHANGED <<nb, files, cur, open, ro, pc, rm, synced, errs, lastRound, pend, faults, crashes, reverts, reopens, nextSeq, leak>>
    /\ Log("TakeSnap", [id |-> i])

\* SnapshotPrevious: the footer record the back-link points to.
Previous(i) ==
    /\ open /\ snaps[i] # NoFooter /\ pc.k = "idle"
    /\ LET ft == snaps[i] IN
       IF ft.prev = 0 THEN snaps' = [snaps EXCEPT ![i] = NoFooter]
       ELSE LET r == Recs(ft.file)[ft.prev] IN
            snaps' = [snaps EXCEPT ![i] = [file |-> ft.file, pos |-> ft.prev, segs |-> r.segs, upto |-> r.upto, prev |-> r.prev]]
    /\ leak' = LeakAfter(snaps[i], cur, snaps')
    /\ UNCHANGED <<nb, files, cur, open, ro, pc, rm, synced, errs, lastRound, pend, faults, crashes, reverts, reopens, nextSeq>>
    /\ Log("Previous", [id |-> i])

CloseSnap(i) ==
    /\ snaps[i] # NoFooter
    /\ snaps' = [snaps EXCEPT ![i] = NoFooter]
    /\ leak' = LeakAfter(snaps[i], cur, snaps')
    /\ UNCHANGED <<nb, files, cur, open, ro, pc, rm, synced, errs, lastRound, pend, faults, crashes, reverts, reopens, nextSeq>>
    /\ Log("CloseSnap", [id |-> i])

\* SnapshotRevert (store_revert.go): sync, append a copy of the footer, sync, publish.
\* Executed as one step here (the collection is closed while reverting); the batches
\* after the revert target are gone for good.
Revert(i) ==
    /\ open /\ ~ro /\ pc.k = "idle" /\ snaps[i] # NoFooter /\ reverts < MaxReverts
    /\ snaps[i].file = cur.file /\ Len(snaps[i].segs) > 0
    /\ Len(Recs(cur.file)) < MaxRecs
    /\ LET ft == snaps[i]
           fs == Append2(cur.file, [Ftr(ft.segs, 0, ft.upto) EXCEPT !.sy = TRUE])
       IN /\ files' = SyncFile(fs, cur.file)
          /\ cur' = [file |-> cur.file, pos |-> Len(Recs(cur.file)) + 1, segs |-> ft.segs, upto |-> ft.upto, prev |-> 0]
          /\ nb' = ft.upto
          /\ synced' = ft.upto
    /\ reverts' = reverts + 1
    /\ pend' = 0
    /\ leak' = LeakAfter(cur, cur', snaps)
    /\ UNCHANGED <<open, ro, pc, snaps, rm, errs, lastRound, faults, crashes, reopens, nextSeq>>
    /\ Log("Revert", [id |-> i])

-----------------------------------------------------------------------------
(* Close, crash, recovery (openStore), read-only open. *)

CloseStore ==
    /\ open /\ pc.k = "idle" /\ \A i \in 1..MaxSnaps : snaps[i] = NoFooter
    /\ open' = FALSE /\ ro' = FALSE
    /\ cur' = NoFooter
    \* closing drops the last references: files scheduled for removal go away
    /\ files' = [f \in 1..MaxFiles |-> IF f \in rm THEN [ex |-> FALSE, recs |-> <<>>] ELSE files[f]]
    /\ rm' = {}
    /\ nb' = cur.upto        \* what was not persisted is gone with the collection
    /\ pend' = 0
    /\ leak' = LeakAfter(cur, NoFooter, snaps)
    /\ UNCHANGED <<pc, snaps, synced, errs, lastRound, faults, crashes, reverts, reopens, nextSeq>>
    /\ Log("CloseStore", [x |-> 0])

\* openStore (store.go:517-636) + ScanFooter (store_footer.go:135-235).
\* ScanFooter accepts a footer whose own bytes are intact and whose segments lie inside
\* the file; it cannot tell whether the segment bytes themselves reached the disk (no
\* checksum) -- that is what the sync before the footer write is for.
ValidFooterAt(recs, i) ==
    /\ recs[i].k = "ftr" /\ recs[i].st = "ok"
    /\ \A j \in 1..Len(recs[i].segs) : recs[i].segs[j] <= Len(recs)
LastValidFooter(recs) ==
    IF \E i \in 1..Len(recs) : ValidFooterAt(recs, i)
    THEN CHOOSE i \in 1..Len(recs) : ValidFooterAt(recs, i) /\ \A j \in (i + 1)..Len(recs) : ~ValidFooterAt(recs, j)
    ELSE 0
HeaderOk(recs) == Len(recs) >= 1 /\ recs[1].k = "hdr" /\ recs[1].st = "ok"
\* As written the scan gives up (returns the error) when the tail of the file is a torn
\* record, instead of continuing with older pages.
ScanFails(recs) == Dev("ScanStopsOnShortRead") /\ Len(recs) >= 1 /\ recs[Len(recs)].st = "torn"

Existing(fs) == {f \in 1..MaxFiles : fs[f].ex}
RECURSIVE Pick(_, _)
\* newest file first; returns <<file, footer index>>, <<0, 0>> for an empty directory,
\* <<-1, 0>> when the open fails.
Pick(fs, cands) ==
    IF cands = {} THEN (IF Existing(fs) = {} \/ ~Dev("NoValidFileFailsOpen") THEN <<0, 0>> ELSE <<-1, 0>>)
    ELSE LET f == CHOOSE x \in cands : \A y \in cands : y <= x
             recs == fs[f].recs IN
         IF ~HeaderOk(recs)
         THEN (IF Dev("BadHeaderAbortsOpen") THEN <<-1, 0>> ELSE Pick(fs, cands \ {f}))
         ELSE IF ScanFails(recs) THEN Pick(fs, cands \ {f})
         ELSE IF LastValidFooter(recs) = 0 THEN Pick(fs, cands \ {f})
         ELSE <<f, LastValidFooter(recs)>>

Recover(fs, readOnly, keepFiles) ==
    LET pk == Pick(fs, Existing(fs)) IN
    IF pk[1] = -1
    THEN /\ open' = FALSE /\ errs' = errs + 1 /\ cur' = NoFooter /\ files' = fs /\ nb' = nb /\ ro' = FALSE
         /\ nextSeq' = MaxExisting(fs) + 1
    ELSE /\ open' = TRUE /\ errs' = errs /\ ro' = readOnly
         /\ nextSeq' = MaxExisting(fs) + 1      \* maxFNameSeq + 1 (from the listing, before any cleanup)
         /\ IF pk[1] = 0
            THEN cur' = NoFooter /\ nb' = 0 /\ files' = fs
            ELSE LET r == fs[pk[1]].recs[pk[2]] IN
                 /\ cur' = [file |-> pk[1], pos |-> pk[2], segs |-> r.segs, upto |-> r.upto, prev |-> r.prev]
                 /\ nb' = r.upto
                 \* the other data files are removed (unless KeepFiles; as written also when read-only)
                 /\ files' = IF keepFiles \/ (readOnly /\ ~Dev("ReadOnlyCleansUp")) THEN fs
                             ELSE [f \in 1..MaxFiles |-> IF f = pk[1] THEN fs[f] ELSE [ex |-> FALSE, recs |-> <<>>]]

\* Crash: every durable record stays; each record that was not synced since it was
\* written survives, is lost (its pages never reached the disk), or -- the last
\* surviving unsynced record of a file only -- is torn; lost records at the tail shorten
\* the file.  With NoSync the model is process kill: nothing is lost, the last record
\* may be torn.
UnsyncedOf(f) == {i \in 1..Len(Recs(f)) : ~Recs(f)[i].sy}
RECURSIVE TrimLost(_)
TrimLost(r) == IF r # <<>> /\ r[Len(r)].st = "lost" THEN TrimLost(SubSeq(r, 1, Len(r) - 1)) ELSE r

\* every way of choosing, per file, which of its unsynced records survive
RECURSIVE AllKeeps(_)
AllKeeps(V) ==
    IF V = {} THEN {[f \in {} |-> {}]}
    ELSE LET f == CHOOSE x \in V : TRUE IN
         {k @@ (f :> sv) : k \in AllKeeps(V \ {f}),
                           sv \in (IF NoSync THEN {UnsyncedOf(f)} ELSE SUBSET UnsyncedOf(f))}

Crash ==
    /\ open /\ crashes < MaxCrashes
    /\ crashes' = crashes + 1
    /\ pc' = NoPc /\ snaps' = [i \in 1..MaxSnaps |-> NoFooter] /\ rm' = {}
    /\ lastRound' = "none"
    /\ synced' = synced /\ pend' = 0
    /\ UNCHANGED <<faults, reverts, reopens>> /\ leak' = {}
    /\ LET Var == {f \in 1..MaxFiles : files[f].ex /\ UnsyncedOf(f) # {}} IN
       \E keep \in AllKeeps(Var), torn \in [Var -> BOOLEAN] :
         LET Surv(f) == IF f \in Var THEN (1..Len(Recs(f))) \ (UnsyncedOf(f) \ keep[f]) ELSE 1..Len(Recs(f))
             LastU(f) == IF f \in Var /\ keep[f] # {} THEN CHOOSE i \in keep[f] : \A j \in keep[f] : j <= i ELSE 0
             fs == [f \in 1..MaxFiles |->
                      IF ~files[f].ex THEN files[f]
                      ELSE [ex |-> TRUE,
                            recs |-> TrimLost([i \in 1..Len(Recs(f)) |->
                                        IF i \notin Surv(f) THEN [Recs(f)[i] EXCEPT !.st = "lost"]
                                        \* what survives the crash is on the disk: it cannot be lost by a later crash
                                        ELSE IF f \in Var /\ torn[f] /\ i = LastU(f) THEN [Recs(f)[i] EXCEPT !.st = "torn", !.sy = TRUE]
                                        ELSE [Recs(f)[i] EXCEPT !.sy = TRUE]])]]
         IN /\ \A f \in Var :
                 /\ keep[f] \subseteq UnsyncedOf(f)
                 /\ torn[f] => keep[f] # {}
                 /\ NoSync => keep[f] = UnsyncedOf(f)               \* process kill: nothing is lost
            /\ Recover(fs, FALSE, FALSE)
            /\ Log("Crash", [img |-> [f \in 1..MaxFiles |-> [i \in 1..Len(fs[f].recs) |-> fs[f].recs[i].st]],
                              k |-> pc.k, s |-> pc.s, fex |-> [f \in 1..MaxFiles |-> files[f].ex],
                              pre |-> [j \in 1..(nb + 1) |-> ContentUpto(j - 1)]])

Reopen(readOnly) ==
    /\ ~open /\ (readOnly => AllowReadOnly) /\ reopens < MaxReopens
    /\ Recover(files, readOnly, FALSE)
    /\ pc' = NoPc
    /\ reopens' = reopens + 1
    /\ UNCHANGED <<snaps, rm, synced, lastRound, pend, faults, crashes, reverts, leak>>
    /\ Log("Reopen", [ro |-> readOnly])

\* A read-only store accepts Persist calls but does nothing.
ReadOnlyPersist ==
    /\ open /\ ro
    /\ UNCHANGED <<nb, files, cur, open, ro, pc, snaps, rm, synced, errs, lastRound, pend, faults, crashes, reverts, reopens, nextSeq, leak>>
    /\ Log("ReadOnlyPersist", [x |-> 0])

-----------------------------------------------------------------------------
Next ==
    \/ NewBatch
    \/ \E k \in Kinds, sp \in 0..3 : Begin(k, sp)
    \/ \E k \in Kinds : IdleRound(k)
    \/ StepFile \/ StepSeg \/ StepSync \/ StepFooter \/ StepSwap
    \/ \E f \in 1..MaxFiles : RemoveFile(f)
    \/ IOFail
    \/ \E i \in 1..MaxSnaps : TakeSnap(i) \/ Previous(i) \/ CloseSnap(i) \/ Revert(i)
    \/ CloseStore \/ Crash
    \/ \E r \in BOOLEAN : Reopen(r)
    \/ ReadOnlyPersist

Spec == Init /\ [][Next]_vars

-----------------------------------------------------------------------------
(* Invariants *)

\* C06: whatever is published can be read: every segment of the current footer (and
\* of every open snapshot) is a completely written record, and they tile 1..upto.
PublishedFooterReadable == open => Readable(cur) /\ \A i \in 1..MaxSnaps : Readable(snaps[i])

\* C05/C04: what the store exposes is the reference after a prefix of the batches.
StoreIsPrefix == open => cur.upto \in 0..nb

\* C05: recovery never goes back behind the last round completed with syncing.
\* (Stated for crashes alone, as the property is: combined with an I/O failure that
\* leaves a newer, abandoned compaction file behind until its asynchronous removal, a
\* crash can make recovery prefer that file -- a model-level lead recorded in DESIGN.md.)
AtLeastSynced == (open /\ faults = 0) => cur.upto >= synced \/ reverts > 0

\* C05: a crash never makes the open fail (the directory always holds a usable file).
OpenNeverFails == faults = 0 => errs = 0

\* C06: a failure is surfaced, and nothing referenced is lost: the file of the current
\* footer exists.
CurrentFileExists == open /\ cur.file # 0 => files[cur.file].ex
SnapFilesExist == \A i \in 1..MaxSnaps : snaps[i].file # 0 => files[snaps[i].file].ex

\* C07: shape after a full compaction; content preserved by any compaction (action property).
FullShape == lastRound = "ok" /\ pc.k = "idle" /\ cur.file # 0 /\ cur.prev = 0 /\ Len(cur.segs) = 1 /\ ~Recs(cur.file)[cur.segs[1]].dels
CompactionPreservesContent ==
    [][(pc.k \in {"full", "partial"} /\ pc.s = 6 /\ pc'.k = "idle" /\ lastRound' = "ok") =>
          (cur'.upto = pc.upto /\ Readable(cur'))]_vars
FullCompactionShape ==
    [][(pc.k = "full" /\ pc.s = 6 /\ pc'.k = "idle" /\ lastRound' = "ok") =>
          (Len(cur'.segs) <= 1 /\ \A j \in 1..Len(cur'.segs) : ~files'[cur'.file].recs[cur'.segs[j]].dels)]_vars

\* C07: superseded files disappear once nothing references them (checked as: a file
\* scheduled for removal and unreferenced is removable -- RemoveFile is enabled --
\* and after CloseStore no scheduled file is left).
OldFilesGoAway == ~open => rm = {}
OnlyCurrentFileAfterClose ==
    (~open /\ faults = 0 /\ crashes = 0) => Cardinality({f \in 1..MaxFiles : files[f].ex}) <= 1

\* C15: once every handle and the store are closed nothing stays open or mapped, and
\* while a handle is open its file exists (SnapFilesExist above).
AllClosedAllReleased == (~open /\ \A i \in 1..MaxSnaps : snaps[i] = NoFooter) => (leak = {} /\ rm = {})
NoPinnedFiles == leak = {}

\* C12: the chain of back-links walks through the footers of the rounds since the
\* last compaction, newest first.
RECURSIVE ChainUptos(_, _)
ChainUptos(f, pos) == IF pos = 0 THEN <<>> ELSE <<Recs(f)[pos].upto>> \o ChainUptos(f, Recs(f)[pos].prev)
HistoryDescends ==
    open /\ cur.file # 0 =>
        LET c == ChainUptos(cur.file, cur.pos) IN
        \A i \in 1..(Len(c) - 1) : c[i] > c[i + 1] \/ reverts > 0
HistoryReadable ==
    open /\ cur.file # 0 =>
        \A pos \in 1..Len(Recs(cur.file)) :
            (Recs(cur.file)[pos].k = "ftr" /\ Recs(cur.file)[pos].st = "ok" /\ Recs(cur.file)[pos].prev # 0) =>
                ValidFooterAt(Recs(cur.file), Recs(cur.file)[pos].prev)

\* C18: a read-only store never changes the directory.
ReadOnlyFrame == [][(ro /\ ro') => files' = files]_vars
ReadOnlyOpenFrame == [][(~open /\ open' /\ ro') => files' = files]_vars

=============================================================================
