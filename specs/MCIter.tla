------------------------------- MODULE MCIter -------------------------------
EXTENDS MossIter
Lead(inv) == inv \/ PrintT(<<"BEH", ToJson(hist)>>)
LeadIterAgrees == Lead(IterAgrees)
LeadSourceIsNewest == Lead(SourceIsNewest)
\* random walks: the shape, the bounds and the program are drawn at random
SimInit == /\ segs = <<>> /\ ll = {} /\ sb = 0 /\ eb = 2 * N + 2 /\ kind = "unset" /\ sidx = 0
           /\ incDel = FALSE /\ skipLL = FALSE
           /\ cur = [i \in 0..MaxSegs |-> Done] /\ calls = 0 /\ hist = <<>>
SimChoose ==
    /\ kind = "unset"
    /\ segs' = [i \in 1..RandomElement(0..MaxSegs) |-> [k \in Keys |-> RandomElement({"none", "set", "set", "del"})]]
    /\ ll' = IF WithLL THEN RandomElement(SUBSET Keys) ELSE {}
    /\ sb' = RandomElement(0..(2 * N + 1)) /\ eb' = RandomElement(1..(2 * N + 2))
    /\ incDel' = RandomElement(IncDelSet) /\ skipLL' = RandomElement(SkipLLSet)
    /\ kind' = "none"
    /\ UNCHANGED <<sidx, cur, calls, hist>>
SimNext == SimChoose \/ Next
\* one behaviour per explored transition
Edge == PrintT(<<"BEH", ToJson(hist')>>)
\* terminal behaviours only (programs of full length)
Full == IF calls = MaxCalls /\ Len(hist) > 0 THEN PrintT(<<"BEH", ToJson(hist)>>) ELSE TRUE
=============================================================================
