------------------------------- MODULE MCIndex -------------------------------
EXTENDS MossIndex, SequencesExt
CONSTANTS QLo, QHi, SampleMod, SampleRes      \* print the cases with (total key bytes + quota + number of keys) % SampleMod = SampleRes
McQuotas == QLo..QHi
Case == [keys |-> ks, quota |-> quota, shape |-> IndexShape,
         look |-> [key \in Probes |-> [pos |-> RefPos(key), start |-> RefStart(key), w |-> Lookup(key)]]]
\* ToJson needs string or integer domains: the probes are listed as a sequence
ProbeSeq == SetToSeq(Probes)
CaseJ == [keys |-> ks, quota |-> quota, shape |-> IndexShape,
          look |-> [i \in 1..Len(ProbeSeq) |-> [probe |-> ProbeSeq[i], pos |-> RefPos(ProbeSeq[i]), start |-> RefStart(ProbeSeq[i]),
                                                  w |-> Lookup(ProbeSeq[i])]]]
PrintCase == IF (TotKeyBytes + quota + N) % SampleMod = SampleRes THEN PrintT(<<"BEH", ToJson(CaseJ)>>) ELSE TRUE
=============================================================================
