------------------------------- MODULE MossVis -------------------------------
(***************************************************************************)
(* Visibility of batches under concurrency (C03).  Writers execute batches *)
(* on disjoint key sets; batch i of writer w writes i to every key it      *)
(* touches (in the top-level collection and in a child collection).        *)
(*                                                                         *)
(* The linearization point of ExecuteBatch is the critical section that    *)
(* installs the new stackDirtyTop ("exec.push"), that of Snapshot the      *)
(* critical section that clones the stacks or hands out the cached         *)
(* snapshot ("coll.snapshot").  A snapshot therefore contains, for each    *)
(* writer, exactly the batches pushed before its linearization point.      *)
(***************************************************************************)
EXTENDS Integers, Sequences, FiniteSets, TLC

CONSTANTS NW,           \* writers 1..NW
          MaxSeq,       \* batches per writer
          NSnap         \* snapshot ids 1..NSnap

VARIABLES executed,     \* [1..NW -> Nat] batches pushed (linearized) per writer
          returned,     \* [1..NW -> Nat] batches whose ExecuteBatch returned
          inflight,     \* [1..NW -> BOOLEAN] an ExecuteBatch call is in progress
          snap,         \* [1..NSnap -> vector or <<>>] content of each snapshot taken
          lo            \* [1..NSnap -> vector] what had returned when the Snapshot call started

vvars == <<executed, returned, inflight, snap, lo>>

Zero == [w \in 1..NW |-> 0]

VInit ==
    /\ executed = Zero /\ returned = Zero
    /\ inflight = [w \in 1..NW |-> FALSE]
    /\ snap = [s \in 1..NSnap |-> <<>>]
    /\ lo = [s \in 1..NSnap |-> Zero]

Call(w) ==
    /\ ~inflight[w] /\ returned[w] < MaxSeq
    /\ inflight' = [inflight EXCEPT ![w] = TRUE]
    /\ UNCHANGED <<executed, returned, snap, lo>>

\* the critical section of ExecuteBatch (collection.go:338-371)
Push(w) ==
    /\ inflight[w] /\ executed[w] = returned[w]
    /\ executed' = [executed EXCEPT ![w] = @ + 1]
    /\ UNCHANGED <<returned, inflight, snap, lo>>

Return(w) ==
    /\ inflight[w] /\ executed[w] = returned[w] + 1
    /\ returned' = [returned EXCEPT ![w] = @ + 1]
    /\ inflight' = [inflight EXCEPT ![w] = FALSE]
    /\ UNCHANGED <<executed, snap, lo>>

SnapCall(s) ==
    /\ snap[s] = <<>> /\ lo[s] = Zero
    /\ lo' = [lo EXCEPT ![s] = returned]
    /\ UNCHANGED <<executed, returned, inflight, snap>>

\* the critical section of Snapshot (collection.go:211-224)
SnapLin(s) ==
    /\ snap[s] = <<>>
    /\ snap' = [snap EXCEPT ![s] = executed]
    /\ UNCHANGED <<executed, returned, inflight, lo>>

VNext ==
    \/ \E w \in 1..NW : Call(w) \/ Push(w) \/ Return(w)
    \/ \E s \in 1..NSnap : SnapCall(s) \/ SnapLin(s)

VSpec == VInit /\ [][VNext]_vvars

\* C03: every snapshot holds, per writer, a prefix of that writer's batches ...
SnapIsPrefix == \A s \in 1..NSnap : snap[s] # <<>> => \A w \in 1..NW : snap[s][w] \in 0..executed[w]
\* ... that includes every batch whose ExecuteBatch had returned when the Snapshot call started ...
ReturnedIsVisible == \A s \in 1..NSnap : snap[s] # <<>> => \A w \in 1..NW : snap[s][w] >= lo[s][w]
\* ... and executed/returned stay consistent.
Consistent == \A w \in 1..NW : returned[w] <= executed[w] /\ executed[w] <= returned[w] + 1
=============================================================================
