------------------------------ MODULE MossIndex ------------------------------
(***************************************************************************)
(* The segment key index (segment_index.go) and the windowed binary        *)
(* searches that use it (segment.go findKeyPos / findStartKeyInclusivePos),*)
(* transcribed operator by operator over concrete short keys, so that the  *)
(* average key size, the byte budget, the hop and index truncation are the *)
(* real ones.  There are no transitions: every initial state is one        *)
(* (sorted key set, quota) case, and the invariants quantify over every    *)
(* probe key.                                                              *)
(***************************************************************************)
EXTENDS Integers, Sequences, FiniteSets, TLC, Json, SequencesExt

CONSTANTS Letters,      \* e.g. {1, 2}
          MaxLen,       \* keys are sequences over Letters of length 0..MaxLen
          ProbeLen,     \* probes have length 0..ProbeLen
          MaxKeys,      \* segments hold 1..MaxKeys keys
          Quotas,       \* SegmentKeysIndexMaxBytes values
          Devs

VARIABLES ks,           \* the segment: a strictly ascending sequence of keys
          quota

vars == <<ks, quota>>

Strs(n) == UNION {[1..m -> Letters] : m \in 0..n}
AllKeys == Strs(MaxLen)
Probes == Strs(ProbeLen)

\* bytes.Compare
RECURSIVE Less(_, _)
Less(a, b) ==
    IF a = <<>> THEN b # <<>>
    ELSE IF b = <<>> THEN FALSE
    ELSE IF Head(a) < Head(b) THEN TRUE
    ELSE IF Head(a) > Head(b) THEN FALSE
    ELSE Less(Tail(a), Tail(b))

Sorted(s) == \A i \in 1..(Len(s) - 1) : Less(s[i], s[i + 1])

RECURSIVE SumLen(_, _)
SumLen(s, i) == IF i = 0 THEN 0 ELSE Len(s[i]) + SumLen(s, i - 1)

-----------------------------------------------------------------------------
(* segment.buildIndex + newSegmentKeysIndex + add.  The index is represented
   by the sequence of (0-based) segment positions whose keys it holds. *)
N == Len(ks)
TotKeyBytes == SumLen(ks, N)
Avg == TotKeyBytes \div N
NumIndexable == quota \div (Avg + 4)
HasIndex == TotKeyBytes >= 1 /\ NumIndexable > 0      \* SegmentKeysIndexMinKeyBytes = 1
Hop == (N \div NumIndexable) + 1
DataCap == NumIndexable * Avg

RECURSIVE Build(_, _, _)
Build(idx, ix, used) ==     \* the loop of buildIndex: idx advances by Hop
    IF idx >= N THEN ix
    ELSE IF Len(ix) >= NumIndexable THEN ix
    ELSE IF Len(ks[idx + 1]) > DataCap - used THEN ix
    ELSE Build(idx + Hop, Append(ix, idx), used + Len(ks[idx + 1]))
Index == IF HasIndex THEN Build(0, <<>>, 0) ELSE <<>>

IKey(ix, h) == ks[ix[h + 1] + 1]        \* h-th (0-based) indexed key

\* segmentKeysIndex.lookup: <<leftPos, rightPos>>
RECURSIVE Bin(_, _, _, _)
Bin(ix, key, i, j) ==
    IF i >= j THEN <<i * Hop, j * Hop>>
    ELSE LET h == i + ((j - i) \div 2) IN
         IF IKey(ix, h) = key THEN <<h * Hop, h * Hop + 1>>
         ELSE IF Less(IKey(ix, h), key) THEN (IF i = h THEN <<i * Hop, j * Hop>> ELSE Bin(ix, key, h, j))
         ELSE Bin(ix, key, i, h)

Lookup(key) ==
    LET ix == Index nk == Len(ix) IN
    IF ~HasIndex THEN <<0, N>>                      \* searchIndex without an index
    ELSE IF nk < 2 THEN <<0, N>>
    ELSE IF Less(key, IKey(ix, 0)) THEN <<0, 0>>
    ELSE IF Less(IKey(ix, nk - 1), key) THEN <<(nk - 1) * Hop, N>>
    ELSE Bin(ix, key, 0, nk)

\* segment.findKeyPos: 0-based position or -1
RECURSIVE Find(_, _, _)
Find(key, i, j) ==
    IF i >= j THEN -1
    ELSE LET h == i + ((j - i) \div 2) IN
         IF ks[h + 1] = key THEN h
         ELSE IF Less(ks[h + 1], key) THEN Find(key, h + 1, j) ELSE Find(key, i, h)
FindKeyPos(key) ==
    IF Less(key, ks[1]) THEN -1
    ELSE LET w == Lookup(key) IN IF w[1] = w[2] THEN -1 ELSE Find(key, w[1], w[2])

\* segment.findStartKeyInclusivePos
RECURSIVE Start(_, _, _)
Start(key, i, j) ==
    IF i >= j THEN i
    ELSE LET h == i + ((j - i) \div 2) IN
         IF ks[h + 1] = key THEN h
         ELSE IF Less(ks[h + 1], key) THEN Start(key, h + 1, j) ELSE Start(key, i, h)
FindStartPos(key) ==
    LET w == Lookup(key) IN
    IF w[1] = w[2] THEN w[1]
    ELSE IF Less(key, ks[1]) THEN w[1]
    ELSE Start(key, w[1], w[2])

-----------------------------------------------------------------------------
(* Reference: what the same searches return without any index. *)
RefPos(key) == IF \E p \in 1..N : ks[p] = key THEN (CHOOSE p \in 1..N : ks[p] = key) - 1 ELSE -1
RefStart(key) == Cardinality({p \in 1..N : Less(ks[p], key)})

\* every non-empty set of at most MaxKeys keys, as the sorted sequence a segment holds
KeySeqs == {SetToSortSeq(S, Less) : S \in {T \in SUBSET AllKeys : Cardinality(T) >= 1 /\ Cardinality(T) <= MaxKeys}}

Init == ks \in KeySeqs /\ quota \in Quotas
Next == UNCHANGED vars
Spec == Init /\ [][Next]_vars

\* C14
WindowSound ==
    \A key \in Probes :
        LET w == Lookup(key) IN
        /\ (0 <= w[1] /\ w[1] <= w[2] /\ w[2] <= N) \/ (w[1] = w[2])
        /\ RefPos(key) # -1 => (w[1] <= RefPos(key) /\ RefPos(key) < w[2])
SameAsNoIndex ==
    \A key \in Probes : FindKeyPos(key) = RefPos(key) /\ FindStartPos(key) = RefStart(key)

\* vacuity guard for the evidence: how the case exercises the index
IndexShape == [indexed |-> Len(Index), hop |-> IF HasIndex THEN Hop ELSE 0, truncated |-> HasIndex /\ Len(Index) < ((N + Hop - 1) \div Hop)]

=============================================================================
