------------------------------ MODULE MossColl ------------------------------
(***************************************************************************)
(* The moss collection: four stacks of immutable sorted segments           *)
(* (stackDirtyTop / Mid / Base, stackClean) over an optional lower level,  *)
(* moved along by the merger and the persister goroutines, with child      *)
(* collections (incarnation numbers), the cached snapshot, snapshots,      *)
(* Collection.Get, the dirty gauges, Close and (store-backed) reopen.      *)
(*                                                                         *)
(* One action per critical section of collection.go, collection_merger.go  *)
(* and persister.go (pinned tree; the action comments give the lines).     *)
(* Next to the implementation-shaped state the spec carries the reference  *)
(* state the properties talk about (`ref`: the ordered map obtained by     *)
(* applying the executed batches in order); invariants relate the two.     *)
(*                                                                         *)
(* Deviations of the code from the intended design are named members of    *)
(* the constant set Devs (DESIGN.md R5).                                   *)
(***************************************************************************)
EXTENDS Integers, Sequences, FiniteSets, TLC, Json

CONSTANTS
    NKeys,          \* keys are 1..NKeys (integer order = byte order after concretisation)
    Paths,          \* set of strings naming collections; "" is the top-level collection
    Par,            \* [Paths \ {""} -> Paths] parent of a child collection
    PathSeq,        \* sequence of all paths, parents first (fixes creation order)
    BNodes,         \* per-path batch node alphabet (see Batches)
    MaxBatches,     \* bound on executed batches (state constraint of configurations)
    MaxPre,         \* MaxPreMergerBatches
    HasLL,          \* a lower level (LowerLevelUpdate) is configured
    LLInit,         \* the lower level exists from the start (mossStore) or only after the first update (application)
    CachePersisted,
    MaxSnaps,       \* snapshot ids 1..MaxSnaps
    MaxErrs,        \* bound on injected LowerLevelUpdate failures
    MaxReopens,     \* bound on close/reopen cycles (needs HasLL /\ LLInit)
    InitKeys,       \* keys the lower level already holds (value <<9>>) when the behaviour starts
    InitKids,       \* child collections (paths, parents included) the lower level already holds, each with key 1 = <<9>>:
                    \* the behaviour then starts with a restoreCollection of children from the store
    MaxPokes,       \* bound on merger cycles started without incoming data (pings / idle runs)
    Devs            \* named deviations switched on

VARIABLES
    coll,           \* [Paths -> [ex, incar, hi]]  collection.childCollections / incarNum / highestIncarNum
    top, mid, base, clean,  \* sections: [nil, t: [Paths -> Node]]
    ll,             \* [nil, c: Content]   collection.lowerLevelSnapshot
    store,          \* Content: what the lower level holds (Store.Snapshot())
    upto,           \* [mid, base, store: Nat] number of batches covered (reference bookkeeping)
    cached,         \* [on, c, m]  collection.latestSnapshot: content, and content read with SkipLowerLevel
    mPc, mw,        \* merger program counter and private work (locals of runMerger)
    pPc,            \* persister program counter
    life,           \* "open" | "closing" | "closed";  mEx/pEx: goroutines gone
    mEx, pEx,
    snaps,          \* [1..MaxSnaps -> [open, c]]
    ref, refs,      \* reference content now / after each batch (refs[i+1] = after i batches)
    errs, nre, pokes,
    hist            \* behaviour so far (for replay into the implementation); hidden by VIEW

vars == <<coll, top, mid, base, clean, ll, store, upto, cached, mPc, mw, pPc,
          life, mEx, pEx, snaps, ref, refs, errs, nre, pokes, hist>>

view == <<coll, top, mid, base, clean, ll, store, upto, cached, mPc, mw, pPc,
          life, mEx, pEx, snaps, ref, refs, errs, nre, pokes>>

-----------------------------------------------------------------------------
(* Vocabulary *)

Keys == 1..NKeys
Root == ""
Kids(p) == {q \in Paths \ {Root} : Par[q] = p}
Idx(p) == CHOOSE i \in 1..Len(PathSeq) : PathSeq[i] = p

Absent == [p |-> FALSE, v |-> <<>>]
Present(v) == [p |-> TRUE, v |-> v]
AllAbsent == [k \in Keys |-> Absent]

NoOp == [o |-> "none", v |-> <<>>]
EmptySeg == [k \in Keys |-> NoOp]
SegLen(s) == Cardinality({k \in Keys : s[k].o # "none"})

\* FullMerge of the (non-commutative) append operator.
MergeVal(lower, operand) == Present((IF lower.p THEN lower.v ELSE <<>>) \o operand)

ApplyOp(val, op) ==
    CASE op.o = "set" -> Present(op.v)
      [] op.o = "del" -> Absent
      [] op.o = "mrg" -> MergeVal(val, op.v)
      [] OTHER -> val

\* segmentStack.get (segment_stack.go:82-115): newest segment first; a
\* set returns its value, a del ends the search, a mrg folds its operand
\* onto whatever lies below; `bottom` stands for base / lower level.
RECURSIVE EvalSegs(_, _, _, _)
EvalSegs(segs, i, k, bottom) ==
    IF i = 0 THEN bottom
    ELSE LET op == segs[i][k] IN
         CASE op.o = "none" -> EvalSegs(segs, i - 1, k, bottom)
           [] op.o = "set"  -> Present(op.v)
           [] op.o = "del"  -> Absent
           [] op.o = "mrg"  -> MergeVal(EvalSegs(segs, i - 1, k, bottom), op.v)

NoNode == [has |-> FALSE, incar |-> 0, segs |-> <<>>, llm |-> AllAbsent]
NoTree == [p \in Paths |-> NoNode]
NilSec == [nil |-> TRUE, t |-> NoTree]

NoC == [ex |-> FALSE, incar |-> 0, m |-> AllAbsent]
EmptyContent == [p \in Paths |-> IF p = Root THEN [ex |-> TRUE, incar |-> 0, m |-> AllAbsent] ELSE NoC]

\* Content without incarnation numbers: what an API user can observe.
Obs(c) == [p \in Paths |-> IF c[p].ex THEN [ex |-> TRUE, m |-> c[p].m] ELSE [ex |-> FALSE, m |-> AllAbsent]]

Dev(d) == d \in Devs

-----------------------------------------------------------------------------
(* Batches.  A batch is a tree of batch nodes: "ops" (a child batch, maybe
   with no operations), "del" (DelChildCollection) or "none". *)

BatchWF(b) ==
    /\ b[Root].kind = "ops"
    /\ \A p \in Paths \ {Root} : b[p].kind # "none" => b[Par[p]].kind = "ops"
    /\ \/ SegLen(b[Root].ops) > 0
       \/ \E p \in Paths \ {Root} : b[p].kind # "none"   \* batch.isEmpty()

\* An operation with an oversize key ("xk", 2^24 bytes or more) or an oversize value ("xv",
\* 2^28 bytes or more) is rejected by the batch with ErrKeyTooLarge / ErrValueTooLarge
\* (segment.go:256-263) and leaves the other operations of the batch alone: what reaches
\* ExecuteBatch is the batch without them.
Rejected(op) == op.o \in {"xk", "xv"}
NormOps(ops) == [k \in Keys |-> IF Rejected(ops[k]) THEN NoOp ELSE ops[k]]
Norm(b) == [p \in Paths |-> [b[p] EXCEPT !.ops = NormOps(b[p].ops)]]

Batches == {b \in [Paths -> BNodes] : BatchWF(Norm(b))}

\* Reference semantics of a batch (what the API documents).
RECURSIVE RefExAfter(_, _, _)
RefExAfter(c, b, p) ==
    IF p = Root THEN TRUE
    ELSE RefExAfter(c, b, Par[p]) /\ (b[p].kind = "ops" \/ (b[p].kind = "none" /\ c[p].ex))

ApplyBatch(c, b) ==
    [p \in Paths |->
        IF ~RefExAfter(c, b, p) THEN [ex |-> FALSE, m |-> AllAbsent]
        ELSE LET old == IF c[p].ex THEN c[p].m ELSE AllAbsent IN
             [ex |-> TRUE,
              m |-> IF b[p].kind = "ops" THEN [k \in Keys |-> ApplyOp(old[k], b[p].ops[k])] ELSE old]]

-----------------------------------------------------------------------------
(* Implementation-shaped helpers *)

\* Lower-level content for a collection path, looked up BY NAME as
\* appendChildLLSnapshot does (collection.go:705-724).  The intended design
\* also requires the incarnation to match; the code does not check it.
LLMapOf(l, p) ==
    IF l.nil \/ ~l.c[p].ex THEN AllAbsent
    ELSE IF p # Root /\ ~Dev("ChildLLByNameOnly") /\ l.c[p].incar # coll[p].incar THEN AllAbsent
    ELSE l.c[p].m

\* appendChildStacks (collection.go:727-749): a child stack of section s is
\* taken only if the child exists now with the same incarnation.
RECURSIVE Incl(_, _)
Incl(s, p) ==
    IF s.nil THEN FALSE
    ELSE IF p = Root THEN TRUE
    ELSE Incl(s, Par[p]) /\ s.t[p].has /\ coll[p].ex /\ coll[p].incar = s.t[p].incar

SegsIf(s, p) == IF Incl(s, p) THEN s.t[p].segs ELSE <<>>

\* collection.snapshot(skip, ...) (collection.go:560-626).
SnapHas(secs, p) ==
    \/ p = Root
    \/ (~ll.nil /\ coll[p].ex)
    \/ \E i \in 1..Len(secs) : Incl(secs[i], p)

RECURSIVE Concat(_, _, _)
Concat(secs, p, i) == IF i = 0 THEN <<>> ELSE Concat(secs, p, i - 1) \o SegsIf(secs[i], p)

SnapTree(secs) ==
    [p \in Paths |->
        IF SnapHas(secs, p)
        THEN [has |-> TRUE, incar |-> coll[p].incar, segs |-> Concat(secs, p, Len(secs)), llm |-> LLMapOf(ll, p)]
        ELSE NoNode]

TreeVal(t, p, k) == EvalSegs(t[p].segs, Len(t[p].segs), k, t[p].llm[k])

TreeContent(t) ==
    [p \in Paths |-> IF t[p].has THEN [ex |-> TRUE, m |-> [k \in Keys |-> TreeVal(t, p, k)]]
                     ELSE [ex |-> FALSE, m |-> AllAbsent]]

AllSecs == <<clean, base, mid, top>>
View == TreeContent(SnapTree(AllSecs))
ViewNoClean == TreeContent(SnapTree(<<base, mid, top>>))

\* What a read with ReadOptions.SkipLowerLevel returns for the top-level collection: the
\* in-memory sections only (it depends on how far the merger has materialised merge operands
\* and on what has been persisted, so it is part of the implementation-shaped state).
MemView == LET segs == Concat(AllSecs, Root, 4) IN [k \in Keys |-> EvalSegs(segs, Len(segs), k, Absent)]

NoCache == [on |-> FALSE, c |-> [p \in Paths |-> [ex |-> FALSE, m |-> AllAbsent]], m |-> AllAbsent]

\* Collection.Get (collection.go:631-684): per-section lookups that skip the
\* lower level, chained while the result is nil, then the lower level.
SecGet(s, k) ==   \* s.Get(key, SkipLowerLevel)
    IF s.nil THEN Absent ELSE EvalSegs(s.t[Root].segs, Len(s.t[Root].segs), k, Absent)

DirectGet(k) ==
    IF ~Dev("DirectGetChainsOnNil") THEN View[Root].m[k]
    ELSE LET a == SecGet(top, k) IN IF a.p THEN a ELSE
         LET b == SecGet(mid, k) IN IF b.p THEN b ELSE
         LET c == SecGet(base, k) IN IF c.p THEN c ELSE
         LET d == SecGet(clean, k) IN IF d.p THEN d ELSE
         IF ll.nil THEN Absent ELSE ll.c[Root].m[k]

\* Collection.Stats() gauges (collection_stats.go): own segments only.
H(s, p) == IF s.nil THEN 0 ELSE Len(s.t[p].segs)
Hn(s) == IF s.nil THEN -1 ELSE Len(s.t[Root].segs)
TreeSegCount(s) ==   \* segments at every level (what the intended gauges count)
    IF s.nil THEN 0 ELSE Cardinality({<<p, i>> \in Paths \X (1..8) : s.t[p].has /\ i <= Len(s.t[p].segs)})
GaugesZero ==
    IF Dev("GaugesRootOnly")
    THEN H(top, Root) + H(mid, Root) + H(base, Root) = 0
    ELSE TreeSegCount(top) + TreeSegCount(mid) + TreeSegCount(base) = 0

\* segmentStack.hasMergeOperations(): a stack that still holds merge operands is not
\* cached as stackClean (the lower level below it already contains those operands).
TreeHasMrg(t) == \E p \in Paths : t[p].has /\ \E i \in 1..Len(t[p].segs) : \E k \in Keys : t[p].segs[i][k].o = "mrg"

TreeEmpty(t) == \A p \in Paths : t[p].has => t[p].segs = <<>>    \* segmentStack.isEmpty()

-----------------------------------------------------------------------------
\* restoreCollection numbers the incarnations depth first (as Reopen does)
RECURSIVE InitIncar(_)
InitIncar(p) ==
    IF p = Root THEN 0
    ELSE InitIncar(Par[p]) + Cardinality({r \in Kids(Par[p]) : r \in InitKids /\ Idx(r) <= Idx(p)})

InitContent ==
    [p \in Paths |->
        IF p = Root THEN [ex |-> TRUE, incar |-> 0, m |-> [k \in Keys |-> IF k \in InitKeys THEN Present(<<9>>) ELSE Absent]]
        ELSE IF p \in InitKids THEN [ex |-> TRUE, incar |-> InitIncar(p), m |-> [k \in Keys |-> IF k = 1 THEN Present(<<9>>) ELSE Absent]]
        ELSE NoC]

Init ==
    /\ coll = [p \in Paths |->
                 IF p = Root \/ p \in InitKids
                 THEN [ex |-> TRUE, incar |-> InitIncar(p), hi |-> InitIncar(p) + Cardinality({r \in Kids(p) : r \in InitKids})]
                 ELSE [ex |-> FALSE, incar |-> 0, hi |-> 0]]
    /\ top = NilSec /\ mid = NilSec /\ base = NilSec /\ clean = NilSec
    /\ ll = [nil |-> ~(HasLL /\ LLInit), c |-> InitContent]
    /\ store = InitContent
    /\ upto = [mid |-> 0, base |-> 0, store |-> 0]
    /\ cached = NoCache
    /\ mPc = "idle" /\ mw = [t |-> NoTree, base |-> NilSec, all |-> FALSE]
    /\ pPc = "idle"
    /\ life = "open" /\ mEx = FALSE /\ pEx = FALSE
    /\ snaps = [i \in 1..MaxSnaps |-> [open |-> FALSE, c |-> Obs(EmptyContent)]]
    /\ ref = Obs(InitContent) /\ refs = <<Obs(InitContent)>>
    /\ errs = 0 /\ nre = 0 /\ pokes = 0
    /\ hist = <<>>

-----------------------------------------------------------------------------
(* ExecuteBatch -- collection.go:338-371 with buildStackDirtyTop (402-488). *)

RECURSIVE ExAfter(_, _)
ExAfter(b, p) ==
    IF p = Root THEN TRUE
    ELSE ExAfter(b, Par[p]) /\ (b[p].kind = "ops" \/ (b[p].kind = "none" /\ coll[p].ex))
Survives(b, p) == coll[p].ex /\ ExAfter(b, p)
IsNew(b, p) == ExAfter(b, p) /\ ~coll[p].ex
Rank(b, p) == Cardinality({r \in Kids(Par[p]) : IsNew(b, r) /\ Idx(r) <= Idx(p)})

RECURSIVE IncarAfter(_, _)
HiBase(b, q) == IF Survives(b, q) THEN coll[q].hi ELSE IncarAfter(b, q)
IncarAfter(b, p) ==
    IF p = Root THEN 0
    ELSE IF Survives(b, p) THEN coll[p].incar
    ELSE HiBase(b, Par[p]) + Rank(b, p)

CollAfter(b) ==
    [p \in Paths |->
        IF ~ExAfter(b, p) THEN [ex |-> FALSE, incar |-> 0, hi |-> 0]
        ELSE [ex |-> TRUE, incar |-> IncarAfter(b, p),
              hi |-> HiBase(b, p) + Cardinality({r \in Kids(p) : IsNew(b, r)})]]

PrevHas(p) == ~top.nil /\ top.t[p].has

RECURSIVE TopHasAfter(_, _)
TopHasAfter(b, p) ==
    IF p = Root THEN TRUE
    ELSE /\ ExAfter(b, p)
         /\ TopHasAfter(b, Par[p])
         /\ (b[p].kind = "ops" \/ (PrevHas(p) /\ Survives(b, p)))

TopAfter(b) ==
    [nil |-> FALSE,
     t |-> [p \in Paths |->
        IF ~TopHasAfter(b, p) THEN NoNode
        ELSE [has |-> TRUE, incar |-> IncarAfter(b, p),
              segs |-> (IF PrevHas(p) THEN top.t[p].segs ELSE <<>>)
                        \o (IF b[p].kind = "ops" /\ SegLen(b[p].ops) > 0 THEN <<b[p].ops>> ELSE <<>>),
              llm |-> AllAbsent]]]

Expect ==
    [ref |-> ref', gz |-> GaugesZero', st |-> Obs(store'), up |-> upto'.store, nb |-> Len(refs') - 1,
     h |-> <<Hn(top'), Hn(mid'), Hn(base'), Hn(clean')>>,
     snaps |-> [i \in 1..MaxSnaps |-> snaps'[i]], dg |-> [k \in Keys |-> DirectGet(k)'], mv |-> MemView',
     so |-> (TreeSegCount(top') + TreeSegCount(mid') + TreeSegCount(base') = 0)]

Log(act, arg) == hist' = Append(hist, [act |-> act, arg |-> arg, exp |-> Expect])

ExecuteBatch(b0) ==
    LET b == Norm(b0) IN
    /\ life = "open"
    /\ H(top, Root) < MaxPre
    /\ Len(refs) <= MaxBatches
    /\ coll' = CollAfter(b)
    /\ top' = TopAfter(b)
    /\ cached' = NoCache
    /\ ref' = ApplyBatch(ref, b)
    /\ refs' = Append(refs, ApplyBatch(ref, b))
    /\ UNCHANGED <<mid, base, clean, ll, store, upto, mPc, mw, pPc, life, mEx, pEx, snaps, errs, nre, pokes>>
    /\ Log("ExecuteBatch", b0)

-----------------------------------------------------------------------------
(* The merger -- collection_merger.go. *)

\* runMerger 98-124: ingest stackDirtyTop into stackDirtyMid.  Enabled by
\* incoming data (mergerWaitForWork: len(stackDirtyTop.a) > 0, or the
\* incoming channel closed by ExecuteBatch) or by a ping (`poke`).
TopDirty == ~top.nil /\ (\E p \in Paths : top.t[p].has /\ top.t[p].segs # <<>>)
TopRootDirty == H(top, Root) > 0

MergerIngest(reqAll, poke) ==
    /\ mPc = "idle" /\ ~mEx
    /\ \/ life = "open"
       \/ life = "closing" /\ TopRootDirty /\ ~poke   \* the loop only stops in mergerWaitForWork
    /\ IF poke THEN pokes < MaxPokes /\ pokes' = pokes + 1 /\ (reqAll \/ ~TopRootDirty)
       ELSE pokes' = pokes /\ ~reqAll /\ TopRootDirty
    /\ LET t == SnapTree(<<mid, top>>) IN
       /\ mid' = [nil |-> FALSE, t |-> t]
       /\ mw' = [t |-> t, base |-> base, all |-> reqAll \/ ~base.nil]
    /\ top' = NilSec
    /\ upto' = [upto EXCEPT !.mid = Len(refs) - 1]
    /\ cached' = NoCache
    /\ mPc' = "ingested"
    /\ UNCHANGED <<coll, base, clean, ll, store, pPc, life, mEx, pEx, snaps, ref, refs, errs, nre>>
    /\ Log("MergerIngest", [all |-> reqAll, poke |-> poke])

\* segmentStack.merge / mergeInto (segment_stack_merge.go:42-235).
RECURSIVE BaseUsable(_)
BaseUsable(p) ==
    IF mw.base.nil THEN FALSE
    ELSE IF p = Root THEN TRUE
    ELSE BaseUsable(Par[p]) /\ mw.base.t[p].has /\ mw.base.t[p].incar = mw.t[p].incar

\* segmentStack.get with a base (segment_stack.go:117-128): the base's segments over the merging
\* stack's own lower level snapshot, which was captured under the same lock as the base and is
\* exactly what lies below it.  Before the L30 repair the base's own snapshot was used, which for a
\* child collection is as old as the ingest that built the base (deviation MergeBaseUsesBaseLL).
BaseChain(p, k) ==
    IF BaseUsable(p)
    THEN EvalSegs(mw.base.t[p].segs, Len(mw.base.t[p].segs), k,
                  IF Dev("MergeBaseUsesBaseLL") THEN mw.base.t[p].llm[k] ELSE mw.t[p].llm[k])
    ELSE mw.t[p].llm[k]

MergedSeg(p, lvl) ==
    LET segs == mw.t[p].segs
        n == Len(segs)
        rng == (lvl + 1)..n
        FullVal(k) == EvalSegs(segs, n, k, BaseChain(p, k))
        Live(i, k) == \E k2 \in Keys : k2 >= k /\ segs[i][k2].o # "none"
        TailCopy(k) == Cardinality({i \in rng : Live(i, k)}) = 1   \* len(iter.cursors) == 1
    IN [k \in Keys |->
          LET has == {i \in rng : segs[i][k].o # "none"} IN
          IF has = {} THEN NoOp
          ELSE LET i == CHOOSE j \in has : \A j2 \in has : j2 <= j
                   op == segs[i][k]
               IN IF TailCopy(k) THEN op
                  ELSE IF op.o = "mrg"
                       THEN (IF FullVal(k).p THEN [o |-> "set", v |-> FullVal(k).v] ELSE [o |-> "del", v |-> <<>>])
                       ELSE op]

LvlChoices(p) ==
    IF ~mw.t[p].has \/ mw.all \/ Len(mw.t[p].segs) <= 2 THEN {0}
    ELSE 0..(Len(mw.t[p].segs) - 2)

MergerSwap(lv) ==
    /\ mPc = "ingested"
    /\ \A p \in Paths : lv[p] \in LvlChoices(p)
    /\ IF TreeEmpty(mw.t)
       THEN mid' = [nil |-> FALSE, t |-> mw.t]      \* mergerMain 288-297 ("merger.skip")
       ELSE mid' = [nil |-> FALSE,
                    t |-> [p \in Paths |->
                        IF ~mw.t[p].has THEN NoNode
                        ELSE [mw.t[p] EXCEPT !.segs = SubSeq(mw.t[p].segs, 1, lv[p]) \o <<MergedSeg(p, lv[p])>>]]]
    /\ mPc' = IF HasLL THEN "swapped" ELSE "idle"
    /\ mw' = [t |-> NoTree, base |-> NilSec, all |-> FALSE]
    \* the swap drops the cached snapshot (collection_merger.go:296-306); it did not before /repo 62f9757
    /\ cached' = IF TreeEmpty(mw.t) \/ Dev("SwapKeepsCachedSnapshot") THEN cached ELSE NoCache
    /\ UNCHANGED <<coll, top, base, clean, ll, store, upto, pPc, life, mEx, pEx, snaps, ref, refs, errs, nre, pokes>>
    /\ Log("MergerSwap", [skip |-> TreeEmpty(mw.t)])

\* mergerNotifyPersister 326-348.
MergerHandoff ==
    /\ mPc = "swapped"
    /\ IF base.nil /\ ~mid.nil
       THEN \* the handed-off stack reads the lower level of *now* -- at the top level only: the child
            \* stacks keep the lower level snapshots of the time they were ingested (collection_merger.go:360-365)
            /\ base' = [mid EXCEPT !.t[Root].llm = LLMapOf(ll, Root)]
            /\ mid' = NilSec
            /\ upto' = [upto EXCEPT !.base = upto.mid]
       ELSE UNCHANGED <<base, mid, upto>>
    /\ mPc' = "idle"
    /\ UNCHANGED <<coll, top, clean, ll, store, cached, mw, pPc, life, mEx, pEx, snaps, ref, refs, errs, nre, pokes>>
    /\ Log("MergerHandoff", [did |-> base.nil /\ ~mid.nil])

MergerExit ==
    /\ life = "closing" /\ mPc = "idle" /\ ~mEx /\ ~TopRootDirty
    /\ mEx' = TRUE
    /\ UNCHANGED <<coll, top, mid, base, clean, ll, store, upto, cached, mPc, mw, pPc, life, pEx, snaps, ref, refs, errs, nre, pokes>>
    /\ Log("MergerExit", [x |-> 0])

-----------------------------------------------------------------------------
(* The persister -- persister.go.  The lower level is mossStore-shaped:
   it appends the handed-down stack to what it has, child collections are
   matched by incarnation (buildNewFooter, store.go:175-217), children that
   the stack does not mention are dropped. *)

StoreApply(st, t) ==
    [p \in Paths |->
        IF ~t[p].has THEN NoC
        ELSE LET prev == IF st[p].ex /\ (p = Root \/ st[p].incar = t[p].incar) THEN st[p].m ELSE AllAbsent IN
             [ex |-> TRUE, incar |-> t[p].incar,
              m |-> [k \in Keys |-> EvalSegs(t[p].segs, Len(t[p].segs), k, prev[k])]]]

\* Store.Persist returns early when the stack has no segment at any level (store.go:115-118,
\* "we're still clean"): a round that carries only structure -- a child collection created
\* without operations, or deleted -- persists nothing (open finding, DESIGN.md section 13).
NoopRound == Dev("StructureOnlyRoundIsNoop") /\ LLInit /\ TreeEmpty(base.t)

PersisterUpdate ==      \* 58-81, LowerLevelUpdate succeeded
    /\ pPc = "idle" /\ ~pEx /\ ~base.nil /\ life = "open"
    /\ store' = IF NoopRound THEN store ELSE StoreApply(store, base.t)
    /\ upto' = IF NoopRound THEN upto ELSE [upto EXCEPT !.store = upto.base]
    /\ pPc' = "updated"
    /\ UNCHANGED <<coll, top, mid, base, clean, ll, cached, mPc, mw, life, mEx, pEx, snaps, ref, refs, errs, nre, pokes>>
    /\ Log("PersisterUpdate", [ok |-> TRUE])

PersisterFail ==        \* 71-79, LowerLevelUpdate failed: OnError, retry
    /\ pPc = "idle" /\ ~pEx /\ ~base.nil /\ life = "open"
    /\ errs < MaxErrs
    /\ errs' = errs + 1
    /\ UNCHANGED <<coll, top, mid, base, clean, ll, store, upto, cached, mPc, mw, pPc, life, mEx, pEx, snaps, ref, refs, nre, pokes>>
    /\ Log("PersisterUpdate", [ok |-> FALSE])

PersisterSwap ==        \* 86-106
    /\ pPc = "updated"
    /\ ll' = [nil |-> FALSE, c |-> store]
    /\ clean' = IF CachePersisted /\ (Dev("CleanKeepsMergeOps") \/ ~TreeHasMrg(base.t)) THEN base ELSE NilSec
    /\ base' = NilSec
    /\ cached' = NoCache
    /\ pPc' = "idle"
    /\ UNCHANGED <<coll, top, mid, store, upto, mPc, mw, life, mEx, pEx, snaps, ref, refs, errs, nre, pokes>>
    /\ Log("PersisterSwap", [x |-> 0])

PersisterExit ==
    /\ life = "closing" /\ pPc = "idle" /\ ~pEx
    /\ pEx' = TRUE
    /\ UNCHANGED <<coll, top, mid, base, clean, ll, store, upto, cached, mPc, mw, pPc, life, mEx, snaps, ref, refs, errs, nre, pokes>>
    /\ Log("PersisterExit", [x |-> 0])

-----------------------------------------------------------------------------
(* Snapshots -- collection.go:211-249. *)

FreeSnap(i) == ~snaps[i].open /\ \A j \in 1..MaxSnaps : j < i => snaps[j].open

TakeSnapshot(i) ==
    /\ life = "open"
    /\ FreeSnap(i)
    /\ LET c == IF cached.on THEN cached.c ELSE View IN
       /\ snaps' = [snaps EXCEPT ![i] = [open |-> TRUE, c |-> c]]
       /\ cached' = [on |-> TRUE, c |-> c, m |-> IF cached.on THEN cached.m ELSE MemView]
    /\ UNCHANGED <<coll, top, mid, base, clean, ll, store, upto, mPc, mw, pPc, life, mEx, pEx, ref, refs, errs, nre, pokes>>
    /\ Log("TakeSnapshot", [id |-> i])

CloseSnapshot(i) ==
    /\ snaps[i].open
    /\ snaps' = [snaps EXCEPT ![i] = [open |-> FALSE, c |-> Obs(EmptyContent)]]
    /\ UNCHANGED <<coll, top, mid, base, clean, ll, store, upto, cached, mPc, mw, pPc, life, mEx, pEx, ref, refs, errs, nre, pokes>>
    /\ Log("CloseSnapshot", [id |-> i])

-----------------------------------------------------------------------------
(* Close and reopen -- collection.go:122-181, store.go:640-743. *)

CloseBegin ==
    /\ life = "open"
    /\ life' = "closing"
    /\ cached' = NoCache
    /\ UNCHANGED <<coll, top, mid, base, clean, ll, store, upto, mPc, mw, pPc, mEx, pEx, snaps, ref, refs, errs, nre, pokes>>
    /\ Log("CloseBegin", [x |-> 0])

CloseEnd ==
    /\ life = "closing" /\ mEx /\ pEx
    /\ life' = "closed"
    /\ top' = NilSec /\ mid' = NilSec /\ base' = NilSec /\ clean' = NilSec
    /\ ll' = [nil |-> TRUE, c |-> EmptyContent]
    /\ UNCHANGED <<coll, store, upto, cached, mPc, mw, pPc, mEx, pEx, snaps, ref, refs, errs, nre, pokes>>
    /\ Log("CloseEnd", [x |-> 0])

\* restoreCollection renumbers incarnations depth first.
RECURSIVE ReIncar(_, _)
ReIncar(st, p) ==
    IF p = Root THEN 0
    ELSE ReIncar(st, Par[p]) + Cardinality({r \in Kids(Par[p]) : st[r].ex /\ Idx(r) <= Idx(p)})

Reopen ==
    /\ life = "closed" /\ HasLL /\ LLInit /\ nre < MaxReopens
    /\ LET st == [p \in Paths |-> IF store[p].ex THEN [store[p] EXCEPT !.incar = ReIncar(store, p)] ELSE NoC] IN
       /\ store' = st
       /\ ll' = [nil |-> FALSE, c |-> st]
       /\ coll' = [p \in Paths |->
                     IF st[p].ex THEN [ex |-> TRUE, incar |-> st[p].incar,
                                       hi |-> st[p].incar + Cardinality({r \in Kids(p) : st[r].ex})]
                     ELSE [ex |-> FALSE, incar |-> 0, hi |-> 0]]
    /\ ref' = refs[upto.store + 1]
    /\ refs' = SubSeq(refs, 1, upto.store + 1)
    /\ upto' = [mid |-> upto.store, base |-> upto.store, store |-> upto.store]
    /\ life' = "open" /\ mEx' = FALSE /\ pEx' = FALSE
    /\ mPc' = "idle" /\ pPc' = "idle"
    /\ nre' = nre + 1
    /\ UNCHANGED <<top, mid, base, clean, cached, mw, snaps, errs, pokes>>
    /\ Log("Reopen", [x |-> 0])

-----------------------------------------------------------------------------
Lvls == [Paths -> 0..2]

Workers ==      \* the merger and the persister goroutines
    \/ \E a \in BOOLEAN, k \in BOOLEAN : MergerIngest(a, k)
    \/ \E lv \in Lvls : MergerSwap(lv)
    \/ MergerHandoff
    \/ MergerExit
    \/ PersisterUpdate \/ PersisterFail \/ PersisterSwap \/ PersisterExit
Handles == \E i \in 1..MaxSnaps : TakeSnapshot(i) \/ CloseSnapshot(i)

Next ==
    \/ \E b \in Batches : ExecuteBatch(b)
    \/ Workers
    \/ Handles
    \/ CloseBegin \/ CloseEnd \/ Reopen

Spec == Init /\ [][Next]_vars

-----------------------------------------------------------------------------
(* Invariants *)

Live == life # "closed"

\* C01: reads reflect exactly the batches executed so far.
ViewIsRef == Live => View = ref

\* C13/C20: the lower level overlaid with the not yet persisted sections.
OverlayIsRef == Live => ViewNoClean = ref

\* C10: Collection.Get agrees with the snapshot path.
DirectGetAgrees == Live => \A k \in Keys : DirectGet(k) = View[Root].m[k]

\* the cached snapshot is never stale.
CachedIsRef == cached.on => cached.c = ref
\* C10 with SkipLowerLevel: a snapshot handed out from the cache reads the in-memory sections
\* exactly as Collection.Get (which always reads the current sections) does.
CachedMemIsMem == cached.on => cached.m = MemView

\* C04: what the lower level holds is the reference after a prefix of batches.
StoreIsPrefix == HasLL => Obs(store) = refs[upto.store + 1]
UptoMonotone == [][upto'.store >= upto.store \/ life = "closed"]_vars

\* C20: zero dirty gauges mean everything is in the lower level.
GaugesZeroImpliesPersisted == (HasLL /\ life = "open" /\ GaugesZero) => Obs(store) = ref

\* C13: once drained, the lower level equals the reference.
Drained == top.nil /\ (mid.nil \/ TreeEmpty(mid.t)) /\ base.nil /\ mPc = "idle" /\ pPc = "idle"
DrainedIsPersisted == (HasLL /\ Live /\ Drained) => Obs(store) = ref

\* C11 (listing): children exist exactly as the reference says.
NamesAreRef == Live => \A p \in Paths : View[p].ex = ref[p].ex

\* structure
TreeWF(t) == \A p \in Paths \ {Root} : t[p].has => t[Par[p]].has
Structure ==
    /\ \A p \in Paths \ {Root} : coll[p].ex => coll[Par[p]].ex
    /\ ~top.nil => TreeWF(top.t) /\ \A p \in Paths : top.t[p].has => coll[p].ex /\ coll[p].incar = top.t[p].incar
    /\ ~mid.nil => TreeWF(mid.t)
    /\ ~base.nil => TreeWF(base.t)
    /\ H(top, Root) <= MaxPre

=============================================================================
