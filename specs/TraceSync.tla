------------------------------- MODULE TraceSync -------------------------------
(***************************************************************************)
(* Trace validation of recorded concurrent executions against the          *)
(* synchronisation rules of MossSync (C16, direction B): back-pressure     *)
(* (len(stackDirtyTop) never exceeds MaxPreMergerBatches), what a push, an *)
(* ingest and Close do to it, and the finality of Close.  Events (fixed    *)
(* record shape [ev, w, top, mid, base, closed, ok, kind], projected by    *)
(* bin/check_conc.py) are hook events taken under the collection mutex and *)
(* call / return events of the driver, ordered by one sequence counter.    *)
(***************************************************************************)
EXTENDS Integers, Sequences, FiniteSets, TLC, Json

CONSTANTS TraceFile, NW, MaxPreC

Trace == ndJsonDeserialize(TraceFile)

VARIABLES top,          \* len(stackDirtyTop.a) according to the events seen so far
          closeCalled,  \* Close() has been called (stopCh is closed somewhere between this and `closed`;
                        \* lock-free readers of the stop channel may see it before the hook event)
          closed,       \* Close() has marked the collection closed (stopCh), as seen under the mutex
          closeRet,     \* Close() has returned
          incall,       \* [1..NW -> "no" | "open" | "afterclose"]: ExecuteBatch in flight, and whether it started after Close returned
          pushed,       \* [1..NW -> BOOLEAN] the call in flight has pushed
          maxpre, l

svars == <<top, closeCalled, closed, closeRet, incall, pushed, maxpre, l>>

SInit ==
    /\ top = 0 /\ closeCalled = FALSE /\ closed = FALSE /\ closeRet = FALSE
    /\ incall = [w \in 1..NW |-> "no"] /\ pushed = [w \in 1..NW |-> FALSE]
    /\ maxpre = MaxPreC /\ l = 1

E == Trace[l]
Is(e) == l <= Len(Trace) /\ E.ev = e
Step == l' = l + 1

\* the hook's own view of the sections must agree with the specification's
Agrees == (E.top = -1 /\ top = 0) \/ E.top = top

SExecCall ==
    /\ Is("execcall")
    /\ incall' = [incall EXCEPT ![E.w] = IF closeRet THEN "afterclose" ELSE "open"]
    /\ pushed' = [pushed EXCEPT ![E.w] = FALSE]
    /\ Step /\ UNCHANGED <<top, closeCalled, closed, closeRet, maxpre>>

\* exec.push (MossSync!WCheck, push branch): only while not closed, only below the bound
SPush ==
    /\ Is("push")
    /\ ~closed
    /\ top < maxpre
    /\ top' = top + 1
    /\ E.top = top + 1
    /\ incall[E.w] = "open"
    /\ pushed' = [pushed EXCEPT ![E.w] = TRUE]
    /\ Step /\ UNCHANGED <<closeCalled, closed, closeRet, incall, maxpre>>

\* ExecuteBatch returned: nil exactly when it pushed; ErrClosed only when the collection
\* was closed by then; a call that started after Close returned must fail with ErrClosed
SExecRet ==
    /\ Is("execret")
    /\ E.ok = pushed[E.w]
    /\ ~E.ok => closeCalled
    /\ incall[E.w] = "afterclose" => ~E.ok
    /\ incall' = [incall EXCEPT ![E.w] = "no"]
    /\ Step /\ UNCHANGED <<top, closeCalled, closed, closeRet, pushed, maxpre>>

\* merger.ingest (MossSync!MIngest): stackDirtyTop is emptied
SIngest ==
    /\ Is("ingest")
    /\ top' = 0
    /\ E.top = -1
    /\ Step /\ UNCHANGED <<closeCalled, closed, closeRet, incall, pushed, maxpre>>

\* any other hook event: the sections it reports are the ones the spec expects
SOther ==
    /\ Is("hook")
    /\ Agrees
    /\ E.closed = closed
    /\ Step /\ UNCHANGED <<top, closeCalled, closed, closeRet, incall, pushed, maxpre>>

SCloseCall ==
    /\ Is("closecall")
    /\ closeCalled' = TRUE
    /\ Step /\ UNCHANGED <<top, closed, closeRet, incall, pushed, maxpre>>

SCloseBegin ==
    /\ Is("closebegin")
    /\ closeCalled /\ ~closed /\ closed' = TRUE
    /\ Step /\ UNCHANGED <<top, closeCalled, closeRet, incall, pushed, maxpre>>

SCloseEnd ==        \* coll.close.end: the stacks are dropped
    /\ Is("closeend")
    /\ closed /\ top' = 0
    /\ Step /\ UNCHANGED <<closeCalled, closed, closeRet, incall, pushed, maxpre>>

SCloseRet ==
    /\ Is("closeret")
    /\ closed /\ closeRet' = TRUE
    /\ Step /\ UNCHANGED <<top, closeCalled, closed, incall, pushed, maxpre>>

\* Snapshot / Get / NewBatch results: ErrClosed only when closed; a call that started
\* after Close returned must fail (kind "after")
SCallRet ==
    /\ Is("callret")
    /\ ~E.ok => closeCalled
    /\ E.kind = "after" => ~E.ok
    /\ Step /\ UNCHANGED <<top, closeCalled, closed, closeRet, incall, pushed, maxpre>>

SReset ==
    /\ Is("reset")
    /\ top' = 0 /\ closeCalled' = FALSE /\ closed' = FALSE /\ closeRet' = FALSE
    /\ incall' = [w \in 1..NW |-> "no"] /\ pushed' = [w \in 1..NW |-> FALSE]
    /\ maxpre' = E.top
    /\ Step

SNext == SCloseCall \/ SExecCall \/ SPush \/ SExecRet \/ SIngest \/ SOther \/ SCloseBegin \/ SCloseEnd \/ SCloseRet \/ SCallRet \/ SReset

\* C16, evaluated at every step of every real execution
TopBounded == top <= maxpre
ClosedStaysClosed == closeRet => closed

Mark == TLCSet(1, l)
Accepted == TLCGet(1) = Len(Trace) + 1 \/ (PrintT(<<"REJECTED-AT", TLCGet(1)>>) /\ FALSE)
=============================================================================
