------------------------------ MODULE TraceStore ------------------------------
(***************************************************************************)
(* Trace validation of the store's footer dynamics (direction B).  Every   *)
(* replay of a TLC behaviour into a store-backed collection or a store,    *)
(* and every store the repository's own tests create, emits one hook       *)
(* event per footer swap (taken under the store mutex): store.persist.swap,*)
(* store.compact.swap (with the splice point) and store.revert.swap, with  *)
(* the scalar projection of the new current footer.  Each event must be a  *)
(* step of the footer dynamics that MossStore specifies:                   *)
(*                                                                         *)
(*   persist   appends to the current file (or starts the first file):     *)
(*             the footer moves forward, keeps every segment location and  *)
(*             links back to the footer it replaces (history, C12)         *)
(*   compact 0 (full) starts a newer file with at most one segment and no  *)
(*             history                                                     *)
(*   compact k (partial) stays in the file, moves forward, keeps exactly   *)
(*             the first k segment locations and adds one                  *)
(*   revert    stays in the file and moves forward                         *)
(*                                                                         *)
(* Records: [ev, s, file, pos, prev, nsl, pers, comp, comppt, splice];     *)
(* file is the sequence number in the data file's name (0: no file yet).   *)
(* The first event of a store only initialises its state ("new").          *)
(***************************************************************************)
EXTENDS Integers, Sequences, FiniteSets, TLC, Json

CONSTANTS TraceFile, MaxStore

Trace == ndJsonDeserialize(TraceFile)

VARIABLES st,       \* [1..MaxStore -> [file, pos, nsl, pers, comp, comppt]]
          l

svars == <<st, l>>

Fresh == [file |-> 0, pos |-> 0, nsl |-> 0, pers |-> 0, comp |-> 0, comppt |-> 0]

SInit == st = [s \in 1..MaxStore |-> Fresh] /\ l = 1

E == Trace[l]
Is(e) == l <= Len(Trace) /\ E.ev = e
S == st[E.s]
Take == st' = [st EXCEPT ![E.s] = [file |-> E.file, pos |-> E.pos, nsl |-> E.nsl, pers |-> E.pers, comp |-> E.comp, comppt |-> E.comppt]]
Step == l' = l + 1

SNew == Is("new") /\ Take /\ Step

SPersist ==
    /\ Is("persist")
    /\ E.pers = S.pers + 1 /\ E.comp = S.comp /\ E.comppt = S.comppt
    /\ E.file >= S.file /\ E.file > 0
    /\ (E.file = S.file => E.pos > S.pos)
    /\ E.prev = S.pos                   \* the back-link of the history (SnapshotPrevious)
    /\ E.nsl >= S.nsl                   \* an append never drops a segment location
    /\ Take /\ Step

SCompactFull ==
    /\ Is("compact") /\ E.splice = 0
    /\ E.comp = S.comp + 1 /\ E.comppt = S.comppt /\ E.pers = S.pers
    /\ E.file > S.file                  \* always a newer file
    /\ E.nsl <= 1
    /\ E.prev = 0                       \* history does not cross files
    /\ Take /\ Step

SCompactPartial ==
    /\ Is("compact") /\ E.splice > 0
    /\ E.comppt = S.comppt + 1 /\ E.comp = S.comp /\ E.pers = S.pers
    /\ E.file = S.file /\ E.pos > S.pos
    /\ E.splice <= S.nsl /\ E.nsl = E.splice + 1
    /\ E.prev = 0
    /\ Take /\ Step

SRevert ==
    /\ Is("revert")
    /\ E.pers = S.pers + 1 /\ E.comp = S.comp /\ E.comppt = S.comppt
    /\ E.file = S.file /\ E.pos > S.pos
    /\ E.nsl >= 1
    /\ Take /\ Step

\* an event the specification cannot explain: reported by the runner, state re-synchronised
SResync == Is("resync") /\ Take /\ Step

SNext == SNew \/ SPersist \/ SCompactFull \/ SCompactPartial \/ SRevert \/ SResync

Mark == TLCSet(1, l)
Accepted == TLCGet(1) = Len(Trace) + 1 \/ (PrintT(<<"REJECTED-AT", TLCGet(1)>>) /\ FALSE)
=============================================================================
