\* C01 core: 2 keys, set/del, no children, in-memory + lower level.
CONSTANTS
  NKeys = 2
  Paths <- McPaths
  Par <- McPar
  PathSeq <- McPathSeq
  BNodes <- McBNodes
  OpAlpha = {"s1", "s2", "d"}
  MaxOps = 2
  Tree = "flat"
  MaxBatches = 3
  MaxPre = 2
  HasLL = TRUE
  LLInit = TRUE
  CachePersisted = FALSE
  MaxSnaps = 0
  MaxErrs = 0
  MaxReopens = 0
  MaxPokes = 1
  Devs = {}
  SimLen = 14
INIT Init
NEXT SimNext
VIEW view
CHECK_DEADLOCK FALSE
INVARIANTS SimPrint ViewIsRef OverlayIsRef DirectGetAgrees CachedIsRef StoreIsPrefix GaugesZeroImpliesPersisted DrainedIsPersisted NamesAreRef Structure
