------------------------------- MODULE MCColl -------------------------------
(* Model-checking harness for MossColl: finite alphabets and path trees. *)
EXTENDS MossColl

CONSTANTS OpAlpha,   \* set of op names: "s1","s2","se","d","m1","m2","xk","xv"
          MaxOps,    \* at most this many operations in one batch node
          Tree,      \* "flat" | "a" | "ab" | "aa"  (shape of the child-collection tree)
          SimLen     \* length of the random walks printed by -simulate

McPaths == CASE Tree = "flat" -> {""}
             [] Tree = "a"    -> {"", "a"}
             [] Tree = "ab"   -> {"", "a", "b"}
             [] Tree = "aa"   -> {"", "a", "a/a"}
             [] Tree = "aab"  -> {"", "a", "a/a", "b"}
McPar == [p \in McPaths \ {""} |-> IF p = "a/a" THEN "a" ELSE ""]
McPathSeq == CASE Tree = "flat" -> <<"">>
               [] Tree = "a"    -> <<"", "a">>
               [] Tree = "ab"   -> <<"", "a", "b">>
               [] Tree = "aa"   -> <<"", "a", "a/a">>
               [] Tree = "aab"  -> <<"", "a", "a/a", "b">>

OpOf(n) == CASE n = "s1" -> [o |-> "set", v |-> <<1>>]
             [] n = "s2" -> [o |-> "set", v |-> <<2>>]
             [] n = "se" -> [o |-> "set", v |-> <<>>]
             [] n = "d"  -> [o |-> "del", v |-> <<>>]
             [] n = "m1" -> [o |-> "mrg", v |-> <<11>>]
             [] n = "m2" -> [o |-> "mrg", v |-> <<12>>]
             [] n = "xk" -> [o |-> "xk",  v |-> <<1>>]     \* Set(oversize key, v): rejected
             [] n = "xv" -> [o |-> "xv",  v |-> <<>>]      \* Set(key, oversize value): rejected

McOps == {OpOf(n) : n \in OpAlpha} \cup {[o |-> "none", v |-> <<>>]}
McSegs == {s \in [1..NKeys -> McOps] : Cardinality({k \in 1..NKeys : s[k].o # "none"}) <= MaxOps}
McBNodes == {[kind |-> "none", ops |-> [k \in 1..NKeys |-> [o |-> "none", v |-> <<>>]]],
             [kind |-> "del",  ops |-> [k \in 1..NKeys |-> [o |-> "none", v |-> <<>>]]]}
            \cup {[kind |-> "ops", ops |-> s] : s \in McSegs}

\* lead harvesting: instead of stopping at the first violated invariant, print the
\* behaviour that reaches each violating state; the leads are replayed against the code (R1)
Lead(inv) == inv \/ PrintT(<<"BEH", ToJson(hist)>>)
LeadViewIsRef == Lead(ViewIsRef)
LeadOverlayIsRef == Lead(OverlayIsRef)
LeadDirectGetAgrees == Lead(DirectGetAgrees)
LeadCachedIsRef == Lead(CachedIsRef)
LeadCachedMemIsMem == Lead(CachedMemIsMem)
LeadStoreIsPrefix == Lead(StoreIsPrefix)
LeadGaugesZeroImpliesPersisted == Lead(GaugesZeroImpliesPersisted)
LeadDrainedIsPersisted == Lead(DrainedIsPersisted)
LeadNamesAreRef == Lead(NamesAreRef)

\* coverage goals: behaviours (breadth-first shortest) that reach a state of a wanted
\* shape are printed and replayed; goals may look at the behaviour so far (hist).
Goal(g) == ~g \/ PrintT(<<"BEH", ToJson(hist)>>)
HistHas(i, a) == hist[i].act = a
NonEmptyStoreAt(i) == \E p \in Paths : hist[i].exp.st[p].ex /\ \E k \in 1..NKeys : hist[i].exp.st[p].m[k].p
\* the store is reopened with content and another persistence round completes afterwards
GoalReopenThenPersist ==
    Goal(Len(hist) > 0 /\ hist[Len(hist)].act = "PersisterSwap"
         /\ \E i \in 1..Len(hist) : HistHas(i, "Reopen") /\ NonEmptyStoreAt(i))
\* a snapshot is held while a later persistence round completes and the collection is closed
GoalSnapHeldAcrossPersistAndClose ==
    Goal(Len(hist) > 0 /\ hist[Len(hist)].act = "CloseEnd" /\ (\E s \in 1..MaxSnaps : snaps[s].open)
         /\ \E i, j \in 1..Len(hist) : i < j /\ HistHas(i, "TakeSnapshot") /\ HistHas(j, "PersisterSwap"))

\* the store has been reopened while a child collection holds persisted data
GoalReopenedChildData ==
    Goal(nre >= 1 /\ life = "open" /\ \E p \in Paths \ {""} : store[p].ex /\ \E k \in 1..NKeys : store[p].m[k].p)

\* a child collection was recreated (new incarnation) after a reopen while the store
\* still holds its previous incarnation
\* ... and holds a key there that the recreated child must not show
GoalRecreatedAfterReopen ==
    Goal(nre >= 1 /\ life = "open" /\ \E p \in Paths \ {""} : coll[p].ex /\ store[p].ex /\ coll[p].incar # store[p].incar
                                                       /\ \E k \in 1..NKeys : store[p].m[k].p /\ ~ref[p].m[k].p)
\* shapes in which a read has to cross every section boundary
HasSegs(sct) == ~sct.nil /\ \E p \in Paths : sct.t[p].has /\ sct.t[p].segs # <<>>
GoalAllSections == Goal(life = "open" /\ HasSegs(top) /\ HasSegs(mid) /\ HasSegs(base) /\ (CachePersisted => HasSegs(clean)))
\* the merger has ingested while a persistence round is pending (and a clean stack is cached)
GoalIngestWhileBase == Goal(mPc = "ingested" /\ HasSegs(base) /\ (CachePersisted => HasSegs(clean)) /\ ~TreeEmpty(mw.t))
\* the persister swapped between the merger's ingest and its swap (the MB-19667 window)
GoalSwapAfterPersist == Goal(mPc = "ingested" /\ ~mw.base.nil /\ base.nil /\ ~TreeEmpty(mw.t))
\* the merger handed off an empty stack (idle run) and data arrived while that round was pending
GoalDataBehindIdleRound == Goal(~base.nil /\ TreeEmpty(base.t) /\ HasSegs(mid) /\ pPc = "idle")

\* a lower-level update failed while the merger sits between the ingest of a cycle that has nothing to
\* merge (woken by a ping) and the assignment that ends that cycle: whatever the persister does with the
\* stack that failed must survive the merger's assignment (the behaviour ends there; the driver's epilogue
\* lets both goroutines run on and reads everything again)
GoalFailDuringEmptyCycle ==
    Goal(mPc = "ingested" /\ TreeEmpty(mw.t) /\ errs > 0 /\ HasSegs(base) /\ pPc = "idle"
         /\ Len(hist) > 0 /\ hist[Len(hist)].act = "PersisterUpdate")

\* shadowing across sections while the merger is between ingest and swap: the newest version of a
\* key lies in stackDirtyBase (round pending), an older one in stackClean, none above
SecHasOp(sct, p, k) == ~sct.nil /\ sct.t[p].has /\ \E i \in 1..Len(sct.t[p].segs) : sct.t[p].segs[i][k].o # "none"
GoalBaseShadowsClean ==
    Goal(mPc = "ingested" /\ ~TreeEmpty(mw.t) /\ \E k \in 1..NKeys : SecHasOp(clean, "", k) /\ SecHasOp(base, "", k) /\ ~SecHasOp(mid, "", k))
\* the merger has to resolve a merge operand against the lower level itself: the key has only
\* operands in the stack being merged, its value is below, and the key is not in the tail
\* that mergeInto copies verbatim (another segment still has an entry at or after it)
GoalMergeOverLL ==
    Goal(mPc = "ingested" /\ ~ll.nil /\ mw.base.nil /\
         \E k \in 1..NKeys :
            /\ ll.c[""].m[k].p
            /\ LET segs == mw.t[""].segs IN
               /\ \E i \in 1..Len(segs) : segs[i][k].o = "mrg"
               /\ \A i \in 1..Len(segs) : segs[i][k].o \in {"none", "mrg"}
               /\ Cardinality({i \in 1..Len(segs) : \E k2 \in k..NKeys : segs[i][k2].o # "none"}) >= 2)

\* one behaviour per explored transition (exhaustive configurations)
Edge == PrintT(<<"BEH", ToJson(hist')>>)

\* behaviours of random walks (-simulate): printed when the walk has the wanted length
SimPrint == IF Len(hist) = SimLen \/ (Len(hist) >= 4 /\ ~ENABLED Next) THEN PrintT(<<"BEH", ToJson(hist)>>) ELSE TRUE
\* one batch chosen at random per step: otherwise the many possible batches outweigh the single
\* successor of each background action and the walks hardly ever complete persistence rounds
\* (likewise one snapshot action); Close is offered only every eighth step, so that the walks
\* complete several persistence rounds between the lifecycle events
Sometimes(n) == RandomElement(1..n) = 1
SimNext ==
    /\ Len(hist) < SimLen
    /\ \/ \E b \in {RandomElement(Batches)} : ExecuteBatch(b)
       \/ Workers
       \/ (MaxSnaps > 0 /\ Sometimes(3) /\ \E i \in {RandomElement(1..MaxSnaps)} : TakeSnapshot(i) \/ CloseSnapshot(i))
       \/ (Sometimes(8) /\ CloseBegin)
       \/ CloseEnd \/ Reopen
=============================================================================
