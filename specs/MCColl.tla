------------------------------- MODULE MCColl -------------------------------
(* Model-checking harness for MossColl: finite alphabets and path trees. *)
EXTENDS MossColl

CONSTANTS OpAlpha,   \* set of op names: "s1","s2","se","d","m1","m2"
          MaxOps,    \* at most this many operations in one batch node
          Tree,      \* "flat" | "a" | "ab" | "aa"  (shape of the child-collection tree)
          SimLen     \* length of the random walks printed by -simulate

McPaths == CASE Tree = "flat" -> {""}
             [] Tree = "a"    -> {"", "a"}
             [] Tree = "ab"   -> {"", "a", "b"}
             [] Tree = "aa"   -> {"", "a", "a/a"}
             [] Tree = "aab"  -> {"", "a", "a/a", "b"}
McPar == [p \in McPaths \ {""} |-> IF p = "a/a" THEN "a" ELSE ""]
McPathSeq == CASE Tree = "flat" -> <<"">>
               [] Tree = "a"    -> <<"", "a">>
               [] Tree = "ab"   -> <<"", "a", "b">>
               [] Tree = "aa"   -> <<"", "a", "a/a">>
               [] Tree = "aab"  -> <<"", "a", "a/a", "b">>

OpOf(n) == CASE n = "s1" -> [o |-> "set", v |-> <<1>>]
             [] n = "s2" -> [o |-> "set", v |-> <<2>>]
             [] n = "se" -> [o |-> "set", v |-> <<>>]
             [] n = "d"  -> [o |-> "del", v |-> <<>>]
             [] n = "m1" -> [o |-> "mrg", v |-> <<11>>]
             [] n = "m2" -> [o |-> "mrg", v |-> <<12>>]

McOps == {OpOf(n) : n \in OpAlpha} \cup {[o |-> "none", v |-> <<>>]}
McSegs == {s \in [1..NKeys -> McOps] : Cardinality({k \in 1..NKeys : s[k].o # "none"}) <= MaxOps}
McBNodes == {[kind |-> "none", ops |-> [k \in 1..NKeys |-> [o |-> "none", v |-> <<>>]]],
             [kind |-> "del",  ops |-> [k \in 1..NKeys |-> [o |-> "none", v |-> <<>>]]]}
            \cup {[kind |-> "ops", ops |-> s] : s \in McSegs}

\* lead harvesting: instead of stopping at the first violated invariant, print the
\* behaviour that reaches each violating state; the leads are replayed against the code (R1)
Lead(inv) == inv \/ PrintT(<<"BEH", ToJson(hist)>>)
LeadViewIsRef == Lead(ViewIsRef)
LeadOverlayIsRef == Lead(OverlayIsRef)
LeadDirectGetAgrees == Lead(DirectGetAgrees)
LeadCachedIsRef == Lead(CachedIsRef)
LeadStoreIsPrefix == Lead(StoreIsPrefix)
LeadGaugesZeroImpliesPersisted == Lead(GaugesZeroImpliesPersisted)
LeadDrainedIsPersisted == Lead(DrainedIsPersisted)
LeadNamesAreRef == Lead(NamesAreRef)

\* coverage goals: behaviours (breadth-first shortest) that reach a state of a wanted
\* shape are printed and replayed; goals may look at the behaviour so far (hist).
Goal(g) == ~g \/ PrintT(<<"BEH", ToJson(hist)>>)
HistHas(i, a) == hist[i].act = a
NonEmptyStoreAt(i) == \E p \in Paths : hist[i].exp.st[p].ex /\ \E k \in 1..NKeys : hist[i].exp.st[p].m[k].p
\* the store is reopened with content and another persistence round completes afterwards
GoalReopenThenPersist ==
    Goal(Len(hist) > 0 /\ hist[Len(hist)].act = "PersisterSwap"
         /\ \E i \in 1..Len(hist) : HistHas(i, "Reopen") /\ NonEmptyStoreAt(i))
\* a snapshot is held while a later persistence round completes and the collection is closed
GoalSnapHeldAcrossPersistAndClose ==
    Goal(Len(hist) > 0 /\ hist[Len(hist)].act = "CloseEnd" /\ (\E s \in 1..MaxSnaps : snaps[s].open)
         /\ \E i, j \in 1..Len(hist) : i < j /\ HistHas(i, "TakeSnapshot") /\ HistHas(j, "PersisterSwap"))

\* the store has been reopened while a child collection holds persisted data
GoalReopenedChildData ==
    Goal(nre >= 1 /\ life = "open" /\ \E p \in Paths \ {""} : store[p].ex /\ \E k \in 1..NKeys : store[p].m[k].p)

\* one behaviour per explored transition (exhaustive configurations)
Edge == PrintT(<<"BEH", ToJson(hist')>>)

\* behaviours of random walks (-simulate): printed when the walk has the wanted length
SimPrint == IF Len(hist) = SimLen \/ (Len(hist) >= 4 /\ ~ENABLED Next) THEN PrintT(<<"BEH", ToJson(hist)>>) ELSE TRUE
SimNext == Len(hist) < SimLen /\ Next
=============================================================================
