#!/usr/bin/env python3
"""C14 -- lookups do not depend on the segment key index.

TLC evaluates MossIndex (segment_index.go and the windowed binary searches of
segment.go transcribed operator by operator) on every (sorted key set, quota)
case of the configuration and every probe; each case, with the positions TLC
computed, is then run against a persisted segment of the real store opened
with that index quota and with indexing disabled."""
import json
import os
import shutil
import sys

sys.path.insert(0, os.path.dirname(os.path.abspath(__file__)))
import vlib
from vlib import Infra, log


def C(**kw):
    c = {"Letters": "{1,2}", "MaxLen": "2", "ProbeLen": "3", "MaxKeys": "4", "Quotas": "<-McQuotas", "QLo": "1", "QHi": "30",
         "Devs": "{}", "SampleMod": "1", "SampleRes": "0"}
    c.update({k: str(v) for k, v in kw.items()})
    return c


def run(prop, tier):
    q = tier == "quick"
    rep = vlib.Report(prop, tier)
    rep.rule = ("cases = (sorted key set over strings of length 0..MaxLen on a 2-letter alphabet incl. the empty key and shared prefixes, index quota); every probe string "
                "(present, between, below the first, above the last) is looked up by Get, as a range start and as a range end, with the index and without; "
                "non-trivial = the index of the case holds at least two keys (so lookup() really narrows the window)")
    work = vlib.scratch(prop)
    vlib.build_harness(("indexreplay",))
    findings = vlib.load_findings()
    sd = vlib.seed()
    plans = [("c14_small", C(MaxLen=2, MaxKeys=4, QHi=30), [{"scale": 1}, {"scale": 1, "fill": 7}, {"scale": 3, "fill": 40}])]
    if q:
        plans.append(("c14_len3", C(MaxLen=3, MaxKeys=3, QHi=40, SampleMod=5, SampleRes=sd % 5), [{"scale": 1}, {"scale": 2, "fill": 15}]))
    else:
        plans.append(("c14_len3", C(MaxLen=3, MaxKeys=4, QHi=48), [{"scale": 1}, {"scale": 2, "fill": 15}, {"scale": 1, "fill": 100}]))
    # six keys of lengths 0..3: three sampled keys, so that the quota can run out on the middle one while a later,
    # shorter one would still fit (the index must stop there: slot n holds the key at position n*hop)
    plans.append(("c14_six", C(MaxLen=3, MaxKeys=6, QLo=(24 if q else 18), QHi=(31 if q else 44), SampleMod=(19 if q else 7), SampleRes=sd % (19 if q else 7)), [{"scale": 1}]))
    shapes = {}
    for name, consts, dimlist in plans:
        cfg = os.path.join(work, name + ".cfg")
        raw = []
        vlib.write_cfg(cfg, consts, invariants=["WindowSound", "SameAsNoIndex", "PrintCase"])
        res = vlib.run_tlc("MCIndex.tla", cfg, work, timeout=3000, beh_sink=raw.append)
        rep.add_tlc(name, res, consts)
        if res.violation:
            log("LEAD: TLC reports %s violated in %s:\n%s" % (res.violation, name, "".join(res.trace[:40])))
            rep.extra.setdefault("tlc_leads", []).append({"config": name, "violated": res.violation})
        else:
            rep.exhaustive = True
        cases = [json.loads(j) for j in raw]
        if not cases:
            raise Infra("no cases printed for %s" % name)
        bp = os.path.join(work, name + ".jsonl")
        vlib.write_behaviours(bp, cases)
        if len(rep.samples) < 2:
            c = cases[len(cases) // 2]
            rep.samples.append({"config": name, "keys": c["keys"], "quota": c["quota"], "shape": c["shape"], "lookups": c["look"][:4]})
        for d in dimlist:
            results, infra = vlib.run_replay(bp, d, binary="indexreplay")
            rep.infra += infra
            for r in results:
                if r["status"] == "infra":
                    rep.infra.append("%s dims=%s case %d: %s" % (name, json.dumps(d), r["id"], r.get("infra")))
                    continue
                rep.evaluations += 1
                rep.traces += 1
                c = cases[r["id"]]
                if c["shape"]["indexed"] >= 2 or d.get("fill"):
                    rep.nontrivial.add((name, r["id"], json.dumps(d)))
                for s in r.get("shapes", []):
                    shapes[s] = shapes.get(s, 0) + 1
                for st in r.get("steps", []):
                    for mm in st.get("mismatches", [])[:1]:
                        f = vlib.match_finding(findings, prop, mm, {"dims": d})
                        if f:
                            rep.known[f["id"]] = rep.known.get(f["id"], 0) + 1
                            continue
                        desc = "%s dims=%s case %d keys=%s quota=%d probe #%d: %s got=%s want=%s" % (
                            name, json.dumps(d), r["id"], c["keys"], c["quota"], mm.get("key"), mm["what"], mm.get("got"), mm.get("want"))
                        rep.violation(desc, {"property": prop, "engine": "index", "config": name, "dims": d, "case": c, "mismatch": mm})
            log("%s: %s dims=%s: %d cases, %d violations so far" % (prop, name, json.dumps(d), len(results), len(rep.violations)))
    top = sorted(shapes.items(), key=lambda kv: -kv[1])[:25]
    rep.extra["index_shapes_exercised"] = dict(top)
    rep.extra["distinct_index_shapes"] = len(shapes)
    rep.assumptions = ["TLC and the CommunityModules Json module",
                       "the model's keys are concretised letter by letter ('a','b'), optionally with every letter repeated (scale) and filler keys inserted after every key (fill) so that hops above 2 occur",
                       "the index is built when a footer's segments are loaded (persist and open) with SegmentKeysIndexMinKeyBytes = 1"]
    shutil.rmtree(work, ignore_errors=True)
    return rep.finish()


def replay(prop, path):
    vlib.build_harness(("indexreplay",))
    obj = json.load(open(path))
    work = vlib.scratch(prop + "-replay")
    bp = os.path.join(work, "one.jsonl")
    vlib.write_behaviours(bp, [obj["case"]])
    results, infra = vlib.run_replay(bp, obj["dims"], nshards=1, binary="indexreplay")
    shutil.rmtree(work, ignore_errors=True)
    if infra or not results or results[0]["status"] == "infra":
        log("INFRA:", infra, results[:1])
        return 2
    r = results[0]
    for st in r.get("steps", []):
        for mm in st.get("mismatches", []):
            print("probe #%s: %s got=%s want=%s" % (mm.get("key"), mm["what"], mm.get("got"), mm.get("want")))
    if r["status"] == "mismatch":
        print("VIOLATION property=%s replay=%s" % (prop, path))
        return 1
    print("replay: no mismatch on the current tree")
    return 0


if __name__ == "__main__":
    import argparse
    ap = argparse.ArgumentParser()
    ap.add_argument("prop")
    ap.add_argument("--tier", default=os.environ.get("VERIF_TIER", "quick"))
    ap.add_argument("--replay", default=None)
    a = ap.parse_args()
    if a.replay:
        vlib.main_wrapper(lambda: replay(a.prop, a.replay))
    else:
        vlib.main_wrapper(lambda: run(a.prop, a.tier))
