#!/usr/bin/env python3
"""C03 (visibility under concurrency) and C16 (calls return, back-pressure,
Close) -- direction B: free-running concurrent executions of the real library
are recorded (hook events carry sequence numbers taken under the collection
lock) and validated by TLC against trace specifications that reuse the
specifications' state and evaluate their invariants at every step."""
import json
import os
import re
import shutil
import subprocess
import sys

sys.path.insert(0, os.path.dirname(os.path.abspath(__file__)))
import vlib
from vlib import Infra, log

NWMAX = 8
FIELDS = {"ev": "", "w": 0, "i": 0, "id": 0, "p": 0, "vec": [], "val": 0, "alt": 0, "ok": True}


def rec(**kw):
    r = dict(FIELDS)
    r.update(kw)
    return r


def project_vis(events, mix=False):
    """conc trace -> TraceVis records (fixed shape).  mix: every third batch of a writer touches only the child
    collection, so a top-level marker v stands for the prefix v or, when batch v+1 is such a batch, v+1 ("alt")."""
    out = []
    ptrs = {}
    reader = {}

    def pid(p):
        if p not in ptrs:
            ptrs[p] = len(ptrs)
        return ptrs[p]
    for e in events:
        ev = e.get("ev")
        if ev == "hook":
            if e["point"] == "exec.push" and "w" in e:
                out.append(rec(ev="push", w=e["w"] + 1, i=e["i"]))
            elif e["point"] == "coll.snapshot" and "ptr" in e:
                out.append(rec(ev="snaphook", p=pid(e["ptr"])))
        elif ev == "call" and e["op"] == "snap":
            reader[e["id"]] = e["r"] + 2        # a reader holds one snapshot at a time: state is kept per reader
            out.append(rec(ev="snapcall", id=reader[e["id"]]))
        elif ev == "ret" and e["op"] == "snap" and "err" not in e:
            out.append(rec(ev="snapret", id=reader[e["id"]], p=pid(e["ptr"])))
        elif ev == "ret" and e["op"] == "exec":
            out.append(rec(ev="execret", w=e["w"] + 1, i=e["i"], ok="err" not in e))
        elif ev == "read":
            out.append(rec(ev="read", id=reader[e["id"]], vec=list(e["vec"]) + [0] * (NWMAX - len(e["vec"]))))
        elif ev == "call" and e["op"] == "get":
            out.append(rec(ev="getcall", id=e["g"] + 1, w=e["w"] + 1))
        elif ev == "ret" and e["op"] == "get" and "err" not in e:
            v = e["val"]
            out.append(rec(ev="getret", id=e["g"] + 1, w=e["w"] + 1, val=v, alt=(v + 1 if mix and (v + 1) % 3 == 0 else v)))
    return out, len(ptrs)


def run_conc(work, cfgs):
    """Run the concurrent driver once per configuration, NPROC at a time."""
    runs = []
    procs = []
    env = dict(os.environ, VERIF_SCRATCH=work)
    for n, c in enumerate(cfgs):
        out = os.path.join(work, "run%04d.ndjson" % n)
        procs.append((n, c, out, subprocess.Popen(["timeout", "150", os.path.join(vlib.BIN, "conc"), "-cfg", json.dumps(c), "-out", out],
                                                  stdout=subprocess.PIPE, stderr=subprocess.PIPE, text=True, env=env)))
        if len(procs) >= vlib.NPROC:
            n0, c0, o0, p0 = procs.pop(0)
            _, err = p0.communicate()
            runs.append((n0, c0, o0, p0.returncode, err))
    for n0, c0, o0, p0 in procs:
        _, err = p0.communicate()
        runs.append((n0, c0, o0, p0.returncode, err))
    return runs


def load(path):
    with open(path) as f:
        return [json.loads(l) for l in f if l.strip()]


def validate_vis(work, name, recs, nw, maxseq, maxptr):
    """Run TLC on the concatenated projected trace; returns (accepted, rejected_at, states)."""
    tf = os.path.join(work, name + ".ndjson")
    with open(tf, "w") as f:
        for r in recs:
            f.write(json.dumps(r) + "\n")
    cfg = os.path.join(work, name + ".cfg")
    vlib.write_cfg(cfg, {"TraceFile": '"%s"' % tf, "NW": str(nw), "MaxSeq": str(maxseq), "MaxPtr": str(max(1, maxptr)), "MaxR": "6"},
                   init="TInit", next_="TNext", invariants=["Mark", "TConsistent", "TSnapsArePrefixes"], postcondition="Accepted")
    try:
        res = vlib.run_tlc("TraceVis.tla", cfg, work, workers=1, timeout=900)
    except Infra as e:
        m = re.search(r'"REJECTED-AT", (\d+)', str(e))
        if m:
            return False, int(m.group(1)), 0
        raise
    m = re.search(r'"REJECTED-AT", (\d+)', res.out)
    if m or res.violation:
        return False, int(m.group(1)) if m else -1, res.distinct
    return True, 0, res.distinct


def c03(tier):
    q = tier == "quick"
    rep = vlib.Report("C03", tier)
    rep.rule = ("free-running concurrent runs (writers on disjoint keys writing their sequence number to a marker, payload keys and a child collection; snapshot readers re-reading; "
                "Collection.Get readers; notifiers; small MaxPreMergerBatches so writers block) recorded with hook sequence numbers and validated by TLC against TraceVis; "
                "distinct = one per (configuration, seed); non-trivial = the run has at least 3 snapshots whose vectors differ and at least one writer blocked (MaxPre=1)")
    work = vlib.scratch("C03")
    vlib.build_harness(("conc",))
    sd = vlib.seed()
    # 1. the design: MossVis
    cfg = os.path.join(work, "vis.cfg")
    consts = {"NW": "2", "MaxSeq": "2", "NSnap": "2"}
    vlib.write_cfg(cfg, consts, init="VInit", next_="VNext", invariants=["SnapIsPrefix", "ReturnedIsVisible", "Consistent"])
    res = vlib.run_tlc("MossVis.tla", cfg, work, timeout=600)
    rep.add_tlc("mossvis", res, consts)
    rep.exhaustive = not res.violation
    # 2. record
    nruns = 24 if q else 400
    cfgs = []
    for n in range(nruns):
        s = sd * 1000 + n
        cfgs.append({"mode": ["mem", "store", "store", "app"][n % 4], "writers": [2, 3, 4, 8][(n // 4) % 4], "readers": [1, 3][(n // 2) % 2], "getters": 1,
                     "notifiers": n % 2, "batches": 25 if q else 60, "payload": 2, "maxPre": [1, 2][(n // 8) % 2], "kids": n % 3 != 0,
                     "compaction": ["", "allow", "force"][n % 3], "deferredSort": n % 5 == 0, "maxDirty": [0, 0, 40][n % 3], "seed": s})
        if n % 4 in (1, 2):
            # batches that touch only the child collection, only the top level, or both (buildStackDirtyTop's three-way rule under concurrency)
            cfgs[-1]["mixKids"] = True
        if n % 10 == 5:
            # a long deferred sort for the readers to race with: thousands of shuffled keys per batch
            cfgs[-1].update({"deferredSort": True, "filler": 20000, "batches": 6, "writers": 2, "maxDirty": 0})
    runs = run_conc(work, cfgs)
    recs = []
    index = []      # (first record index, run number)
    maxptr = 1
    nw = 8
    maxseq = max(c["batches"] for c in cfgs)
    sample_run = None
    for n, c, path, rc, err in sorted(runs):
        if rc not in (0, 3) or not os.path.exists(path):
            rep.infra.append("conc run %d exit %s: %s" % (n, rc, err[-500:]))
            continue
        evs = load(path)
        summary = evs[-1]
        if summary.get("hang"):
            # a hang is C16's business; the trace up to the hang is still validated here
            rep.extra.setdefault("hangs_seen", []).append({"run": n, "hang": summary["hang"]})
        pr, np_ = project_vis(evs[:-1], mix=bool(c.get("mixKids") and c.get("kids")))
        vecs = set(tuple(r["vec"]) for r in pr if r["ev"] == "read")
        if len(vecs) >= 3 and c["maxPre"] == 1:
            rep.nontrivial.add(n)
        index.append((len(recs) + 1, n, path, c))
        recs.append(rec(ev="reset"))
        recs += pr
        maxptr = max(maxptr, np_)
        rep.evaluations += 1
        if sample_run is None and len(pr) > 50:
            sample_run = {"cfg": c, "events": pr[20:32]}
    if sample_run:
        rep.samples.append(sample_run)
    if not recs:
        raise Infra("no trace recorded")
    # 3. validate, forty runs per TLC invocation (one long trace of 400 runs did not finish in 15 minutes on a loaded machine)
    CH = 40
    for g in range(0, len(index), CH):
        grp = index[g:g + CH]
        lo = grp[0][0] - 1
        hi = index[g + CH][0] - 1 if g + CH < len(index) else len(recs)
        part = recs[lo:hi]
        ok, at, states = validate_vis(work, "all%d" % (g // CH), part, nw, maxseq, maxptr)
        rep.states += states
        rep.transitions += states
        if ok:
            rep.traces += len(grp)
            continue
        at += lo        # position in the whole list
        # which run, which event
        bad = [x for x in grp if x[0] <= at]
        first, n, path, c = bad[-1] if bad else grp[0]
        rep.traces += len([x for x in grp if x[0] < first])
        evd = recs[at - 1] if 0 < at <= len(recs) else {}
        os.makedirs(os.path.join(vlib.VERIF, "evidence", "replays"), exist_ok=True)
        keep = os.path.join(vlib.VERIF, "evidence", "replays", "C03-run%d-seed%d.ndjson" % (n, c["seed"]))
        shutil.copy(path, keep)
        rep.violations.append(("trace of run %d (cfg %s) rejected by TraceVis at projected event %d: %s" % (n, json.dumps(c), at - first, json.dumps(evd)), keep))
    # 4. the binding bites: a corrupted read and a dropped push must be rejected
    if index:
        first, n, path, c = index[0]
        end = index[1][0] - 1 if len(index) > 1 else len(recs)
        one = recs[first - 1:end]
        reads = [k for k, r in enumerate(one) if r["ev"] == "read" and sum(r["vec"]) > 0]
        pushes = [k for k, r in enumerate(one) if r["ev"] == "push"]
        tests = {}
        if reads:
            bad = [dict(r) for r in one]
            k = reads[len(reads) // 2]
            v = list(bad[k]["vec"])
            v[0] = v[0] + 1
            bad[k]["vec"] = v
            tests["corrupted_read_rejected"] = not validate_vis(work, "self1", bad, nw, maxseq, maxptr)[0]
        if len(pushes) > 2:
            bad = [r for k, r in enumerate(one) if k != pushes[1]]
            tests["dropped_push_rejected"] = not validate_vis(work, "self2", bad, nw, maxseq, maxptr)[0]
        rep.extra["binding_self_tests"] = tests
        for t, v in tests.items():
            if not v:
                rep.infra.append("binding self-test failed: %s" % t)
    rep.assumptions = ["TLC and the CommunityModules Json module (ndJsonDeserialize)",
                       "hook events are emitted under the collection mutex after the change; their sequence numbers come from one counter shared with the driver's call/return events",
                       "exec.push events are attributed to a writer through the identity of the Batch object the writer created"]
    shutil.rmtree(work, ignore_errors=True)
    return rep.finish()



SFIELDS = {"ev": "", "w": 0, "top": 0, "mid": 0, "base": 0, "closed": False, "ok": True, "kind": ""}


def srec(**kw):
    r = dict(SFIELDS)
    r.update(kw)
    return r


LOCKED_HOOKS = {"coll.snapshot", "coll.get", "merger.swap", "merger.skip", "merger.handoff", "merger.handoffskip", "persister.begin", "persister.swap"}


def project_sync(events, maxpre):
    """conc trace -> TraceSync records (fixed shape)."""
    out = [srec(ev="reset", top=maxpre)]
    for e in events:
        ev = e.get("ev")
        if ev == "hook":
            pt = e["point"]
            if pt == "exec.push" and "w" in e:
                out.append(srec(ev="push", w=e["w"] + 1, top=e["top"]))
            elif pt == "merger.ingest":
                out.append(srec(ev="ingest", top=e["top"]))
            elif pt == "coll.close.begin":
                out.append(srec(ev="closebegin"))
            elif pt == "coll.close.end":
                out.append(srec(ev="closeend"))
            elif pt in LOCKED_HOOKS:
                out.append(srec(ev="hook", top=e["top"], mid=e["mid"], base=e["base"], closed=e["closed"], kind=pt))
        elif ev == "call" and e["op"] == "exec":
            out.append(srec(ev="execcall", w=e["w"] + 1))
        elif ev == "ret" and e["op"] == "exec":
            out.append(srec(ev="execret", w=e["w"] + 1, ok="err" not in e))
        elif ev == "call" and e["op"] == "close":
            out.append(srec(ev="closecall"))
        elif ev == "ret" and e["op"] == "close":
            out.append(srec(ev="closeret"))
        elif ev == "ret" and e["op"] in ("snap", "get"):
            out.append(srec(ev="callret", ok="err" not in e, kind="after" if e.get("closedBefore") else e["op"]))
        elif ev == "newbatch":
            out.append(srec(ev="callret", ok=False, kind="after" if e.get("closedBefore") else "newbatch"))
    return out


def validate_sync(work, name, recs, nw):
    tf = os.path.join(work, name + ".ndjson")
    with open(tf, "w") as f:
        for r in recs:
            f.write(json.dumps(r) + "\n")
    cfg = os.path.join(work, name + ".cfg")
    vlib.write_cfg(cfg, {"TraceFile": '"%s"' % tf, "NW": str(nw), "MaxPreC": "1"},
                   init="SInit", next_="SNext", invariants=["Mark", "TopBounded", "ClosedStaysClosed"], postcondition="Accepted")
    try:
        res = vlib.run_tlc("TraceSync.tla", cfg, work, workers=1, timeout=900)
    except Infra as e:
        m = re.search(r'"REJECTED-AT", (\d+)', str(e))
        if m:
            return False, int(m.group(1)), 0
        raise
    m = re.search(r'"REJECTED-AT", (\d+)', res.out)
    if m or res.violation:
        return False, int(m.group(1)) if m else -1, res.distinct
    return True, 0, res.distinct



HOOK_OBSERVE = {"coll.snapshot", "coll.get", "persister.begin"}
HOOK_ACTIONS = {"exec.push", "merger.ingest", "merger.swap", "merger.skip", "merger.handoff", "merger.handoffskip", "persister.swap",
                "coll.close.begin", "coll.close.end"}


# measured hook events per test: these four produce 4.07 M, 431 k, 198 k and 102 k; all the others together about 12 k
HEAVY_TESTS = "TestCompactionWithAndWithoutRegularSync|TestSegmentKindBasicWithAndWithoutIndex|TestMossDGM|Test_DGMLoad"


def repo_tests_trace(rep, work, regex, timeout=1500, skip_heavy=False):
    """Direction B over the repository's own tests: run them with -tags verif and the recording
    test helper, then let TLC check every hook event of every collection they create against
    TraceHooks (the section dynamics MossColl specifies).  Returns the number of events validated."""
    tdir = os.path.join(work, "repotests")
    os.makedirs(tdir, exist_ok=True)
    env = dict(vlib.GOENV, VERIF_TRACE_DIR=tdir)
    env.pop("CGO_ENABLED", None)
    # two tests assign the collection's sections directly (white-box), which is not a behaviour of the library
    # (measured: 15 s without the bulk loaders, 80 s with them; a test that hangs is cut off by go test's own timeout,
    # which names it; the events recorded until then are still validated and the hang is reported as an infrastructure
    # problem of this run -- exit 2 unless something else is a violation)
    gotimeout = "4m" if skip_heavy else "25m"
    try:
        p = subprocess.run(["go", "test", "-tags", "verif", "-vet=off", "-count=1", "-timeout", gotimeout, "-run", regex,
                            "-skip", "TestIteratorMergeOps_MB19667|TestPersistMergeOps_MB19667" + ("|" + HEAVY_TESTS if skip_heavy else ""), "."],
                           cwd=vlib.REPO, env=env, capture_output=True, text=True, timeout=(400 if skip_heavy else timeout))
        out, rc = p.stdout + p.stderr, p.returncode
    except subprocess.TimeoutExpired as e:
        out, rc = "timed out: %s" % e, -1
    if rc != 0 and "\nok" not in "\n" + out:
        hung = re.findall(r"^\s+(Test\S+) \(", out, re.M)[:3] if "test timed out" in out else []
        if "test timed out" in out or rc == -1:
            rep.infra.append("the repository's tests (tag verif) did not finish within %s (running: %s); the events recorded until then are validated" % (gotimeout, ", ".join(hung) or "?"))
        log("repository tests (tag verif) did not pass; their traces are validated anyway:\n" + out[-600:])
    recs = []
    ncoll = 0
    for fn in sorted(os.listdir(tdir)):
        if not fn.endswith(".ndjson"):
            continue
        base = ncoll
        seen = {}
        with open(os.path.join(tdir, fn)) as f:
            for line in f:
                try:
                    e = json.loads(line)
                except ValueError:
                    continue
                if "c" not in e:        # a footer swap of a store: validated against TraceStore below
                    continue
                cid = e["c"]
                if cid not in seen:
                    seen[cid] = base + len(seen) + 1
                    ncoll = max(ncoll, seen[cid])
                    mp = e.get("maxpre", 10)
                    if mp <= 0:
                        mp = 10
                    recs.append({"ev": "new", "c": seen[cid], "top": -1, "mid": -1, "base": -1, "clean": -1, "closed": False, "maxpre": min(mp, 1000000)})
                pt = e["point"]
                if pt in HOOK_ACTIONS:
                    ev = pt
                elif pt in HOOK_OBSERVE:
                    ev = "observe"
                else:
                    continue
                recs.append({"ev": ev, "c": seen[cid], "top": e["top"], "mid": e["mid"], "base": e["base"], "clean": e["clean"],
                             "closed": e["closed"], "maxpre": 0})
    if not recs:
        raise Infra("the repository tests produced no hook trace (is the verif test helper in place?)")
    resyncs = []
    states = 0
    for attempt in range(12):
        tf = os.path.join(work, "hooks.ndjson")
        with open(tf, "w") as f:
            for r in recs:
                f.write(json.dumps(r) + "\n")
        cfg = os.path.join(work, "hooks.cfg")
        vlib.write_cfg(cfg, {"TraceFile": '"%s"' % tf, "MaxColl": str(max(1, ncoll))}, init="HInit", next_="HNext",
                       invariants=["Mark", "TopBounded", "Shape"], postcondition="Accepted")
        try:
            res = vlib.run_tlc("TraceHooks.tla", cfg, work, workers=1, timeout=900)
            out, st = res.out, res.distinct
        except Infra as e:
            out, st = str(e), 0
        m = re.search(r'"REJECTED-AT", (\d+)', out)
        states = max(states, st)
        if not m:
            break
        at = int(m.group(1))
        bad = recs[at - 1]
        resyncs.append({"event": at, "record": bad})
        # re-synchronise the specification with what the hook reports and go on with the rest of the trace
        recs.insert(at - 1, dict(bad, ev="resync"))
    # the stores of the repository's tests: every footer swap against TraceStore.tla
    srecs, nstore = vlib.store_trace_records([os.path.join(tdir, fn) for fn in sorted(os.listdir(tdir)) if fn.endswith(".ndjson")])
    vlib.validate_store_trace(rep, work, srecs, nstore, "C16", "the stores created by the repository's own tests (tag verif)")
    return len(recs), states, resyncs


SYNC_BASE = {"NWriters": "2", "MaxBatches": "2", "MaxPre": "1", "PingCap": "1", "NNotifiers": "1", "SyncNotify": "FALSE",
             "HasLL": "TRUE", "MaxLLFails": "1", "WithClose": "TRUE", "DirtyWait": "FALSE", "Devs": "{}"}


def sync_cfg(path, consts, invs, props):
    lines = ["CONSTANTS"] + ["  %s = %s" % (k, v) for k, v in consts.items()] + ["SPECIFICATION Spec", "INVARIANTS " + " ".join(invs)]
    if props:
        lines.append("PROPERTIES " + " ".join(props))
    lines.append("CHECK_DEADLOCK FALSE")
    with open(path, "w") as f:
        f.write("\n".join(lines) + "\n")


def c16(tier):
    q = tier == "quick"
    rep = vlib.Report("C16", tier)
    rep.rule = ("(a) TLC: all interleavings of the MossSync skeleton (writers blocked on back-pressure, merger, persister with failing lower level, notifiers, closer), safety and liveness under fairness; "
                "(b) the schedules of the counterexamples of the named deviations replayed with gates on the real library (a call that does not return is a violation); "
                "(c) free-running runs with a closer at a random moment, notifiers, slow / failing lower levels and MaxDirtyOps, recorded and validated by TLC against TraceSync; "
                "distinct = one per (configuration, seed); non-trivial = a writer was blocked when Close was called or returned ErrClosed, or the run had more than 20 pushes with MaxPre=1")
    work = vlib.scratch("C16")
    vlib.build_harness(("conc", "syncscen"))
    sd = vlib.seed()
    # (a) the design
    # sync_dirty: MaxDirtyOps back-pressure at its worst (the merger waits for the persister after every cycle that leaves anything dirty)
    plans = [("sync_async", {}), ("sync_pong", {"SyncNotify": "TRUE"}), ("sync_dirty", {"DirtyWait": "TRUE"}), ("sync_dirty_noclose", {"DirtyWait": "TRUE", "WithClose": "FALSE"})]
    if not q:
        plans += [("sync_nofail_3b", {"MaxBatches": "3", "MaxLLFails": "0", "NNotifiers": "0"}), ("sync_cap2", {"PingCap": "2", "NNotifiers": "2"}),
                  ("sync_mem", {"HasLL": "FALSE", "MaxBatches": "3"})]
    for name, over in plans:
        c = dict(SYNC_BASE)
        c.update(over)
        cfg = os.path.join(work, name + ".cfg")
        props = ["ClosedIsFinal", "WritersFinish", "NotifiersReturn", "CloseReturns", "BlockedWritersReleased"]
        if c["NNotifiers"] == "0":
            props.remove("NotifiersReturn")     # quantifies over no notifier: TLC refuses a tautology
        sync_cfg(cfg, c, ["TopBounded", "NoDeadlock"], props)
        res = vlib.run_tlc("MCSync.tla", cfg, work, timeout=2400)
        rep.add_tlc(name, res, c)
        if res.violation:
            log("LEAD: TLC reports %s violated in %s" % (res.violation, name))
            rep.extra.setdefault("tlc_leads", []).append({"config": name, "violated": res.violation})
        else:
            rep.exhaustive = True
    # (b) deviations must produce counterexamples on the model; their schedules are replayed on the code
    for name, over, scen, trials in [("sync_dev_l10", {"Devs": '{"PersisterNotifyBlocksUnderLock"}', "NNotifiers": "2"}, "l10", 1),
                                     ("sync_dev_l24", {"Devs": '{"ExitIgnoresQueuedPings"}', "SyncNotify": "TRUE"}, "l24", 10 if q else 40),
                                     # a hypothetical deviation (never a defect of the tree): the model must deadlock without the
                                     # persister's close of waitDirtyOutgoingCh; on the code the free-running maxDirty runs of (c) cover it
                                     ("sync_dev_out", {"Devs": '{"PersisterDoesNotCloseOutgoing"}', "DirtyWait": "TRUE", "WithClose": "FALSE"}, None, 0)]:
        c = dict(SYNC_BASE)
        c.update(over)
        cfg = os.path.join(work, name + ".cfg")
        sync_cfg(cfg, c, ["NoDeadlock"], [])
        res = vlib.run_tlc("MCSync.tla", cfg, work, timeout=1200)
        rep.add_tlc(name + " (deviation must deadlock on the model)", res, c)
        steps = [l.split("<")[1].split(" ")[0] for l in res.trace if l.startswith("State ") and "<" in l and "Initial" not in l]
        rep.extra.setdefault("leads", []).append({"config": name, "violated": res.violation, "schedule": steps})
        if not res.violation:
            rep.infra.append("vacuity: deviation config %s did not violate NoDeadlock" % name)
        for t in range(trials):
            p = subprocess.run(["timeout", "120", os.path.join(vlib.BIN, "syncscen"), "-scenario", scen, "-trial", str(t)], capture_output=True, text=True)
            rep.evaluations += 1
            try:
                r = json.loads(p.stdout.strip().splitlines()[-1])
            except (ValueError, IndexError):
                rep.infra.append("syncscen %s: %s" % (scen, (p.stdout + p.stderr)[-400:]))
                continue
            if r["status"] == "infra":
                rep.infra.append("syncscen %s: %s" % (scen, r.get("detail")))
            elif r["status"] == "hang":
                rep.violation("scenario %s (schedule of the TLC counterexample of %s): %s" % (scen, name, r["detail"]),
                              {"property": "C16", "scenario": scen, "schedule": steps, "detail": r["detail"], "goroutines": r.get("dump", "")[:20000]})
                break
            else:
                rep.traces += 1
                rep.nontrivial.add(("scen", scen, t))
    # (c) free-running runs, trace validated
    nruns = 32 if q else 500
    cfgs = []
    for n in range(nruns):
        s = sd * 1000 + n
        mode = ["mem", "store", "app", "app"][n % 4]
        cfgs.append({"mode": mode, "writers": [2, 4, 8][n % 3], "readers": 1, "getters": 1, "notifiers": [0, 1, 2][(n // 3) % 3], "batches": 30 if q else 80, "payload": 1,
                     "maxPre": [1, 2][(n // 2) % 2], "kids": False, "closer": n % 4 != 3, "slowLL": [0, 2, 5][n % 3] if mode == "app" else 0,
                     "failLL": [0, 3][(n // 4) % 2] if mode == "app" else 0, "maxDirty": [0, 10][(n // 8) % 2], "compaction": ["", "force"][n % 2], "seed": s})
        if n % 8 == 5:
            # batches that touch only a child collection (stackDirtyTop non-nil but without a segment of its own: the merger's
            # and the writers' notions of "empty" must agree or nobody wakes the merger); no closer that would end a hang;
            # these runs are watched for calls that do not return only (TraceSync's heights count top-level segments)
            cfgs[-1].update({"kids": True, "mixKids": True, "closer": False, "notifiers": 0, "maxPre": 1, "hangOnly": True})
        if n % 8 == 6:
            # a lower level that returns an error for every update: Close must still return (the persister has to look at
            # the stop channel between two attempts), and it releases the writers that back-pressure has blocked by then
            cfgs[-1].update({"mode": "app", "failLL": 1, "slowLL": 0, "closer": True, "maxDirty": 0, "hangOnly": True})
    runs = run_conc(work, cfgs)
    recs = []
    index = []
    for n, c, path, rc, err in sorted(runs):
        if rc not in (0, 3) or not os.path.exists(path):
            rep.infra.append("conc run %d exit %s: %s" % (n, rc, err[-500:]))
            continue
        evs = load(path)
        summary = evs[-1]
        rep.evaluations += 1
        if c.get("hangOnly") and not summary.get("hang"):
            continue
        if summary.get("hang"):
            os.makedirs(os.path.join(vlib.VERIF, "evidence", "replays"), exist_ok=True)
            keep = os.path.join(vlib.VERIF, "evidence", "replays", "C16-hang-run%d-seed%d.ndjson" % (n, c["seed"]))
            shutil.copy(path, keep)
            rep.violations.append(("run %d (cfg %s): %s; pending: %s" % (n, json.dumps(c), summary["hang"], summary.get("pending")), keep))
            continue
        pr = project_sync(evs[:-1], c["maxPre"])
        npush = len([r for r in pr if r["ev"] == "push"])
        errclosed = any(r["ev"] == "execret" and not r["ok"] for r in pr)
        if errclosed or (c["maxPre"] == 1 and npush > 20):
            rep.nontrivial.add(n)
        index.append((len(recs) + 1, n, path, c))
        recs += pr
        if len(rep.samples) < 2 and len(pr) > 60:
            rep.samples.append({"cfg": c, "events": pr[30:40]})
    if recs:
        ok, at, states = validate_sync(work, "all", recs, 8)
        rep.states += states
        rep.transitions += states
        if ok:
            rep.traces += len(index)
        else:
            bad = [x for x in index if x[0] <= at]
            first, n, path, c = bad[-1] if bad else index[0]
            rep.traces += len([x for x in index if x[0] < first])
            evd = recs[at - 1] if 0 < at <= len(recs) else {}
            os.makedirs(os.path.join(vlib.VERIF, "evidence", "replays"), exist_ok=True)
            keep = os.path.join(vlib.VERIF, "evidence", "replays", "C16-run%d-seed%d.ndjson" % (n, c["seed"]))
            shutil.copy(path, keep)
            rep.violations.append(("trace of run %d (cfg %s) rejected by TraceSync at projected event %d: %s" % (n, json.dumps(c), at - first, json.dumps(evd)), keep))
        # the binding bites
        first, n, path, c = index[0]
        end = index[1][0] - 1 if len(index) > 1 else len(recs)
        one = recs[first - 1:end]
        tests = {}
        pushes = [k for k, r in enumerate(one) if r["ev"] == "push"]
        ingests = [k for k, r in enumerate(one) if r["ev"] == "ingest"]
        if pushes and ingests:
            bad = [r for k, r in enumerate(one) if k != ingests[0]]
            tests["dropped_ingest_rejected"] = not validate_sync(work, "self1", bad, 8)[0]
            bad = [dict(r) for r in one]
            bad[pushes[-1]]["top"] += 1
            tests["corrupted_height_rejected"] = not validate_sync(work, "self2", bad, 8)[0]
        rep.extra["binding_self_tests"] = tests
        for t, v in tests.items():
            if not v:
                rep.infra.append("binding self-test failed: %s" % t)
    # (d) the repository's own tests, recorded with the tracer on, validated against TraceHooks
    regex = "."
    nev, st, resyncs = repo_tests_trace(rep, work, regex, skip_heavy=q)
    rep.states += st
    rep.transitions += st
    rep.extra["repo_tests_trace"] = {"tests": "all except the two white-box tests that assign the sections directly" + (" and the bulk-load tests (%s)" % HEAVY_TESTS if q else ""),
                                     "hook_events_validated": nev, "unexplained_events": resyncs[:10]}
    for r in resyncs:
        os.makedirs(os.path.join(vlib.VERIF, "evidence", "replays"), exist_ok=True)
        keep = os.path.join(vlib.VERIF, "evidence", "replays", "C16-repotest-event%d.json" % r["event"])
        json.dump(r, open(keep, "w"))
        rep.violations.append(("a hook event of the repository's own tests is not a step of the section dynamics of MossColl (TraceHooks): %s" % json.dumps(r["record"]), keep))
    if not resyncs:
        rep.traces += 1
    rep.assumptions = ["TLC (safety and liveness under weak fairness of every process step) and the CommunityModules Json module",
                       "a call counts as not returning when it is still pending 20 s after the run should have ended, or 3 s after the gated scenario, while the lower level makes progress",
                       "the ping channel capacity (10 in the code) is a constant of the specification (1 or 2 in the configurations); the gated scenario uses the code's value"]
    shutil.rmtree(work, ignore_errors=True)
    return rep.finish()


if __name__ == "__main__":
    import argparse
    ap = argparse.ArgumentParser()
    ap.add_argument("prop")
    ap.add_argument("--tier", default=os.environ.get("VERIF_TIER", "quick"))
    ap.add_argument("--replay", default=None)
    a = ap.parse_args()
    if a.replay:
        print("the replay file is the recorded trace of the rejected run: %s" % a.replay)
        sys.exit(0)
    if a.prop == "C03":
        vlib.main_wrapper(lambda: c03(a.tier))
    elif a.prop == "C16":
        vlib.main_wrapper(lambda: c16(a.tier))
    else:
        sys.exit(2)
