#!/usr/bin/env python3
"""C09 -- iterators enumerate the range in order and seek correctly.

TLC checks MossIter (the iterator written as iterator.go / iterator_single.go
are: cursor windows, heap order, Next, SeekTo with naive tries and restart,
optimize()) against the reference iterator for every snapshot shape, pair of
bounds and program within the configuration; the programs (with the return
values the reference requires) are then run against iterators of the real
library built on the same shapes."""
import json
import os
import re
import shutil
import sys

sys.path.insert(0, os.path.dirname(os.path.abspath(__file__)))
import vlib
from vlib import Infra, log

INVS = ["IterAgrees", "SourceIsNewest", "RetAgrees"]
PROPS = ["DoneAbsorbing"]


def C(**kw):
    c = {"N": "2", "MaxSegs": "2", "WithLL": "TRUE", "MaxTries": "1", "MaxCalls": "3", "Devs": "{}", "IncDelSet": "{FALSE}", "SkipLLSet": "{FALSE}"}
    c.update({k: str(v) for k, v in kw.items()})
    return c


def run(prop, tier):
    q = tier == "quick"
    rep = vlib.Report(prop, tier)
    rep.rule = ("programs over {Next, SeekTo(x)} with x on the doubled key domain (keys and gaps, backward seeks, seeks after exhaustion), for every snapshot shape "
                "(segments with set/del per key, optional lower-level layer), every pair of bounds (nil, gap, key, equal, inverted) and the iterator options IncludeDeletions / SkipLowerLevel; distinct by (shape, bounds, options, program); "
                "non-trivial = the shape has a tombstone or a lower-level layer, or the program contains a SeekTo")
    work = vlib.scratch(prop)
    vlib.build_harness(("iterreplay",))
    findings = vlib.load_findings()
    sd = vlib.seed()
    exhaustive = [("c09_n2_t1", C(MaxTries=1, MaxCalls=3)), ("c09_n2_t100", C(MaxTries=100, MaxCalls=3))]
    # the iterator options: IncludeDeletions (deletion entries are visited, value nil) and SkipLowerLevel
    exhaustive.append(("c09_opts", C(MaxTries=1, MaxCalls=2, IncDelSet="{TRUE, FALSE}", SkipLLSet="{TRUE, FALSE}")))
    if not q:
        exhaustive.append(("c09_n3", C(N=3, MaxSegs=2, MaxCalls=2, WithLL="FALSE")))
    for name, consts in exhaustive:
        cfg = os.path.join(work, name + ".cfg")
        vlib.write_cfg(cfg, consts, invariants=INVS, properties=PROPS, view="view")
        res = vlib.run_tlc("MCIter.tla", cfg, work, timeout=1500)
        rep.add_tlc(name, res, consts)
        if res.violation:
            log("LEAD: TLC reports %s violated in %s" % (res.violation, name))
            rep.extra.setdefault("tlc_leads", []).append({"config": name, "violated": res.violation})
        else:
            rep.exhaustive = True
    gens = [
        ("full", "c09_prog_n2", C(MaxTries=1, MaxCalls=3), None, [{"mode": "store", "n": 2, "maxTries": 1}, {"mode": "mem", "n": 2, "maxTries": 1, "keyset": "emptykey"},
                                                                     {"mode": "app", "n": 2, "maxTries": 100, "deferredSort": True}]),
        ("sim", "c09_walk_n3", C(N=3, MaxSegs=3, MaxCalls=6, MaxTries=1), 200 if q else 3000,
         [{"mode": "store", "n": 3, "maxTries": 1}, {"mode": "mem", "n": 3, "maxTries": 1}, {"mode": "store", "n": 3, "maxTries": 100, "keyset": "emptykey", "deferredSort": True}]),
        ("sim", "c09_walk_n4", C(N=4, MaxSegs=3, MaxCalls=6, MaxTries=100), 100 if q else 2000,
         [{"mode": "store", "n": 4, "maxTries": 100}, {"mode": "app", "n": 4, "maxTries": 100}]),
        ("sim", "c09_walk_opts", C(N=3, MaxSegs=3, MaxCalls=6, MaxTries=1, IncDelSet="{TRUE, FALSE}", SkipLLSet="{TRUE, FALSE}"), 200 if q else 3000,
         [{"mode": "store", "n": 3, "maxTries": 1}, {"mode": "app", "n": 3, "maxTries": 100}, {"mode": "store", "n": 3, "maxTries": 1, "keyset": "emptykey"}]),
        ("lead", "c09_lead", C(MaxTries=1, MaxCalls=3, Devs='{"OptimizeAfterSkip"}'), ["LeadIterAgrees"], [{"mode": "store", "n": 2, "maxTries": 1}, {"mode": "mem", "n": 2, "maxTries": 1}]),
    ]
    kinds_seen = {}
    for kind, name, consts, arg, dimlist in gens:
        cfg = os.path.join(work, name + "_gen.cfg")
        raw = []
        if kind == "full":
            vlib.write_cfg(cfg, consts, invariants=["Full"], view="view")
            res = vlib.run_tlc("MCIter.tla", cfg, work, timeout=1200, beh_sink=raw.append)
            rep.transitions += res.generated
        elif kind == "sim":
            vlib.write_cfg(cfg, consts, init="SimInit", next_="SimNext", invariants=["Full"], view="view")
            res = vlib.run_tlc("MCIter.tla", cfg, work, simulate=(max(1, arg // 8), 20, sd), workers=8, timeout=600, beh_sink=raw.append)
            rep.transitions += res.generated
        else:
            vlib.write_cfg(cfg, consts, invariants=arg, view="view")
            res = vlib.run_tlc("MCIter.tla", cfg, work, timeout=1200, beh_sink=raw.append)
            rep.add_tlc(name + " (lead harvesting)", res, consts)
            rep.extra.setdefault("leads", []).append({"config": name, "violating_states": len(raw)})
        behs = vlib.dedup_behaviours(raw)
        if kind == "full" and q and len(behs) > 4000:
            step = len(behs) / 4000.0
            behs = [behs[int(i * step)] for i in range(4000)]
        if not behs:
            if kind == "lead":
                continue
            raise Infra("no behaviours generated for %s" % name)
        bp = os.path.join(work, name + ".jsonl")
        vlib.write_behaviours(bp, behs)
        if len(rep.samples) < 3:
            b = behs[len(behs) // 2]
            rep.samples.append({"config": name, "program": [[c["call"], c["arg"], c["ref"]] for c in b]})
        for d in dimlist:
            results, infra = vlib.run_replay(bp, d, binary="iterreplay")
            rep.infra += infra
            for r in results:
                if r["status"] == "skip":
                    continue
                if r["status"] == "infra":
                    rep.infra.append("%s dims=%s behaviour %d: %s" % (name, json.dumps(d), r["id"], r.get("infra")))
                    continue
                rep.evaluations += 1
                rep.traces += 1
                b = behs[r["id"]]
                st = b[0]["arg"]
                if any("del" in seg for seg in st["segs"]) or any(st["ll"]) or any(c["call"] == "SeekTo" for c in b):
                    rep.nontrivial.add((name, r["id"]))
                for t in r.get("shapes", []):
                    kinds_seen[t] = kinds_seen.get(t, 0) + 1
                reported = False
                for s in r.get("steps", []):
                    rep.drift += len(s.get("drift", []))
                    for mm in s.get("mismatches", []):
                        if reported:
                            continue
                        f = vlib.match_finding(findings, prop, mm, {"dims": d})
                        if f:
                            rep.known[f["id"]] = rep.known.get(f["id"], 0) + 1
                            continue
                        desc = "%s dims=%s behaviour %d step %d (%s): %s got=%s want=%s %s" % (
                            name, json.dumps(d), r["id"], s["step"], s["act"], mm["what"], mm.get("got"), mm.get("want"), mm.get("note", ""))
                        rep.violation(desc, {"property": prop, "engine": "iter", "config": name, "dims": d, "behaviour": b, "step": s["step"], "mismatch": mm})
                        reported = True
            log("%s: %s dims=%s: %d programs, %d violations so far" % (prop, name, json.dumps(d), len(results), len(rep.violations)))
    rep.extra["iterator_kinds_exercised"] = kinds_seen
    rep.assumptions = ["TLC and the CommunityModules Json module",
                       "keys of the model are concretised to prefix-sharing byte strings (and, in the emptykey set, the empty key, 0x00 and 0xFF keys)",
                       "the lower-level iterator handed out by optimize() is the lower level's own (mossStore footer iterator / application iterator)"]
    shutil.rmtree(work, ignore_errors=True)
    return rep.finish()


def replay(prop, path):
    vlib.build_harness(("iterreplay",))
    obj = json.load(open(path))
    work = vlib.scratch(prop + "-replay")
    bp = os.path.join(work, "one.jsonl")
    vlib.write_behaviours(bp, [obj["behaviour"]])
    results, infra = vlib.run_replay(bp, obj["dims"], nshards=1, binary="iterreplay")
    shutil.rmtree(work, ignore_errors=True)
    if infra or not results or results[0]["status"] == "infra":
        log("INFRA:", infra, results[:1])
        return 2
    for c in obj["behaviour"]:
        log("%-7s %s -> reference %s" % (c["call"], json.dumps(c["arg"]), json.dumps(c["ref"])))
    r = results[0]
    for s in r.get("steps", []):
        for mm in s.get("mismatches", []):
            print("step %d (%s): %s got=%s want=%s" % (s["step"], s["act"], mm["what"], mm.get("got"), mm.get("want")))
    if r["status"] == "mismatch":
        print("VIOLATION property=%s replay=%s" % (prop, path))
        return 1
    print("replay: no mismatch on the current tree")
    return 0


if __name__ == "__main__":
    import argparse
    ap = argparse.ArgumentParser()
    ap.add_argument("prop")
    ap.add_argument("--tier", default=os.environ.get("VERIF_TIER", "quick"))
    ap.add_argument("--replay", default=None)
    a = ap.parse_args()
    if a.replay:
        vlib.main_wrapper(lambda: replay(a.prop, a.replay))
    else:
        vlib.main_wrapper(lambda: run(a.prop, a.tier))
