#!/usr/bin/env python3
"""bin/seedeval.py <dir-with-mutant.diff> <PROPERTY> [more properties...]

Like bin/seedcheck.py, but never touches /repo or /verif's evidence: the
seeded change is confirmed in a scratch worktree of /repo (demonstration passes
without it, fails with it, the repository's suite passes with it), then the
quick check(s) are run from a scratch *copy* of /verif whose harness module is
pointed at that worktree (VERIF_REPO, replace directive rewritten), so that
several changes can be evaluated side by side while /repo stays unchanged.
Writes seeded/<id>/{patch.diff, demo_test.go.txt, NOTES.md, meta.json,
example-replay.json} in /verif.  Environment: SEED_TIER (quick), SEED_NPROC (8),
SEED_SKIP_CONFIRM=1 re-evaluates a change that is already in seeded/<id>."""
import json, os, shutil, subprocess, sys, time

ENV = dict(os.environ, GOFLAGS="-mod=mod", GOPROXY="off", GOSUMDB="off", GOTOOLCHAIN="local")
VERIF = os.path.dirname(os.path.dirname(os.path.abspath(__file__)))


def sh(cmd, cwd=None, timeout=3600, env=None):
    p = subprocess.run(cmd, shell=True, cwd=cwd, env=env or ENV, capture_output=True, text=True, timeout=timeout)
    return p.returncode, (p.stdout + p.stderr)


def main():
    src = sys.argv[1].rstrip("/")
    props = sys.argv[2:]
    tier = os.environ.get("SEED_TIER", "quick")
    nproc = os.environ.get("SEED_NPROC", "8")
    skip = os.environ.get("SEED_SKIP_CONFIRM") == "1"
    sid = os.path.basename(src).replace("mut_", "")
    out = os.path.join(VERIF, "seeded", sid)
    os.makedirs(out, exist_ok=True)
    if skip:
        patch = os.path.join(out, "patch.diff")
        meta = json.load(open(os.path.join(out, "meta.json")))
    else:
        patch = os.path.join(src, "mutant.diff")
        demo = os.path.join(src, "zz_demo_test.go")
        meta = {"id": sid, "breaks": props, "ran": []}
    wt = "/tmp/se_%s_wt" % sid
    vc = "/tmp/se_%s_v" % sid
    sh("git -C /repo worktree remove --force %s" % wt)
    shutil.rmtree(vc, ignore_errors=True)
    rc, o = sh("git -C /repo worktree add --detach %s HEAD" % wt)
    assert rc == 0, o
    try:
        if not skip:
            shutil.copy(demo, wt)
            rc, o = sh("go test -vet=off -count=2 -run 'TestSeededDemo$' .", cwd=wt, timeout=900)
            meta["demo_without_change"] = "pass" if rc == 0 else "FAIL"
            meta["ran"].append("go test -run TestSeededDemo (clean tree): exit %d" % rc)
        rc, o = sh("git apply %s" % patch, cwd=wt)
        assert rc == 0, "patch does not apply: " + o
        rc, o = sh("go build ./...", cwd=wt)
        meta["builds"] = rc == 0
        if not skip:
            rc, o = sh("go test -vet=off -count=2 -run 'TestSeededDemo$' .", cwd=wt, timeout=900)
            meta["demo_with_change"] = "fail" if rc != 0 else "PASS"
            meta["ran"].append("go test -run TestSeededDemo (with change): exit %d" % rc)
            os.remove(os.path.join(wt, "zz_demo_test.go"))
            cmd = "go test -vet=off -count=1 -timeout 25m ./... 2>&1 | grep -E '^(--- FAIL|ok|FAIL|panic)'"
            rc, o = sh(cmd, cwd=wt, timeout=2400)
            if "FAIL" in o or "panic" in o:
                rc, o2 = sh(cmd, cwd=wt, timeout=2400)
                o = o + " | retry: " + o2
                meta["suite_with_change"] = "pass" if ("FAIL" not in o2 and "panic" not in o2) else "FAIL"
            else:
                meta["suite_with_change"] = "pass"
            meta["ran"].append("go test ./... (with change): %s" % o.strip().replace("\n", "; "))
            shutil.copy(patch, os.path.join(out, "patch.diff"))
            shutil.copy(demo, os.path.join(out, "demo_test.go.txt"))
            if os.path.exists(os.path.join(src, "NOTES.md")):
                shutil.copy(os.path.join(src, "NOTES.md"), os.path.join(out, "NOTES.md"))
        # scratch copy of /verif pointed at the worktree
        rc, o = sh("rsync -a --exclude .work --exclude evidence/replays --exclude .git --exclude seeded %s/ %s/" % (VERIF, vc))
        assert rc == 0, o
        gm = os.path.join(vc, "harness", "go.mod")
        s = open(gm).read().replace("=> /repo", "=> " + wt)
        open(gm, "w").write(s)
        os.makedirs(os.path.join(vc, "evidence", "replays"), exist_ok=True)
        env = dict(ENV, VERIF_REPO=wt, VERIF_NPROC=nproc)
        det = {}
        for p in props:
            t0 = time.time()
            rc, o = sh("python3 bin/check %s --tier %s" % (p, tier), cwd=vc, timeout=7200, env=env)
            lines = o.splitlines()
            viol = [l for l in lines if l.startswith("VIOLATION")]
            first = ""
            for i, l in enumerate(lines):
                if l.startswith("VIOLATION"):
                    first = (lines[i + 1] if i + 1 < len(lines) else "").strip()[:400]
                    rp = l.split("replay=")[-1].strip()
                    if os.path.exists(rp):
                        shutil.copy(rp, os.path.join(out, "example-replay.json"))
                    break
            det[p] = {"exit": rc, "violations": len(viol), "first": first, "wall_s": round(time.time() - t0)}
            if rc not in (0, 1):
                det[p]["tail"] = "\n".join(lines[-15:])[-1500:]
            open(os.path.join(out, "last-%s.log" % p), "w").write(o[-200000:])
        rc, head = sh("git -C /repo rev-parse --short HEAD")
        rc, vhead = sh("git -C %s rev-parse --short HEAD" % VERIF)
        meta.setdefault("rounds", []).append({"tier": tier, "repo_head": head.strip(), "verif_head": vhead.strip(),
                                              "isolated_copy": True, "results": det})
        meta["detected_by"] = det
        meta["detected"] = any(d["exit"] == 1 for d in det.values())
    finally:
        sh("git -C /repo worktree remove --force %s" % wt)
        shutil.rmtree(vc, ignore_errors=True)
    json.dump(meta, open(os.path.join(out, "meta.json"), "w"), indent=1)
    print(json.dumps({k: meta[k] for k in meta if k not in ("ran",)}, indent=1))


main()
