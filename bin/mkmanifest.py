#!/usr/bin/env python3
"""Regenerates MANIFEST.json from the table below (kept in one place so the
manifest stays valid while checks are added)."""
import json, os, subprocess
HERE = os.path.dirname(os.path.abspath(__file__))
VERIF = os.path.dirname(HERE)

def hook_commits():
    out = subprocess.run(["git", "-C", "/repo", "log", "--format=%h %s"], capture_output=True, text=True).stdout
    return [l.split()[0] for l in out.splitlines() if " verif:" in l]

COLL_NOTE = ("Trusted: TLC + CommunityModules Json; the verif hooks sit at the linearization points of DESIGN.md section 8; "
             "expected values are computed by TLC, the Go harness has no reference model; exhaustive only within the constants "
             "listed in the evidence; larger spaces are sampled by seeded TLC random walks.")

T = "TLA+ model checking (TLC on MossColl) + replay of TLC-generated behaviours and lead counterexamples into the gated implementation"
CHECKS = {
 "C01": dict(text="TLC checks MossColl!ViewIsRef/OverlayIsRef exhaustively on the bounded model (every placement of merger ingest/swap/hand-off, "
             "persister update/swap between the batches); TLC-generated behaviours are replayed through the real library with merger and persister held at gates, "
             "everything observable read back after every step, over in-memory / application lower level / mossStore x CachePersisted x DeferredSort x MinMergePercentage x compaction concern.",
             technique=T, ref="6/C01"),
 "C02": dict(text="Behaviours with TakeSnapshot at arbitrary states; every held snapshot (with child snapshots and a full iteration) is re-read after every later batch, merger and "
             "persister step, forced and partial compaction, Close and reopen, and must equal the content TLC froze when it was taken; in addition a store snapshot taken after every persistence round "
             "and a collection snapshot taken whenever nothing is dirty are held across the next round and re-read with backward seeks after every step (rolling snapshots).",
             technique=T, ref="6/C02"),
 "C04": dict(text="TLC checks MossColl!StoreIsPrefix (what the lower level holds is the reference after a prefix of the batches) with Close and Reopen actions; behaviours with up to two "
             "close/reopen cycles are replayed store-backed (append-only, forced full compaction, and dimensions under which the store's own policy takes partial compactions, counted in the evidence); "
             "reopened content must be the full reference when the model says persistence had caught up, a prefix otherwise; a persistence round that fails or a hand-off the model forbids is a conformance violation.",
             technique=T, ref="6/C04"),
 "C08": dict(text="Set/Del/Merge behaviours with the non-commutative append operator; the code-shaped evaluation (segmentStack.get chain, mergeInto with tail copy, base and captured lower level) "
             "is checked against the fold on the bounded model and every read path of the implementation is compared at every step (memory, application lower level, mossStore, compaction, reopen, CachePersisted, child collection).",
             technique=T, ref="6/C08"),
 "C10": dict(text="TLC checks MossColl!DirectGetAgrees and CachedMemIsMem (the cached snapshot reads the in-memory sections as Collection.Get does); replays compare Collection.Get, Snapshot.Get and the iteration entry for every "
             "key of the universe after every step, with and without NoCopyValue and with SkipLowerLevel (against MossColl!MemView shipped with every step); "
             "lead behaviours of the historical chain-on-nil deviation are replayed as regression cases; every value a copying Get returned is kept, must lie outside every mapping of the data files "
             "and must read the same after snapshot, collection and store are closed (also with a merge operator that hands back existingValue itself).",
             technique=T, ref="6/C10"),
 "C11": dict(text="Behaviours over a tree of child names (create, child-only batch, delete, recreate, nested) with incarnation numbers modelled as the code keeps them; names and content of every "
             "child at every level are compared from collection snapshots, the store snapshot and after reopen, under every compaction concern.",
             technique=T, ref="6/C11"),
 "C13": dict(text="Application lower level implementing the documented LowerLevelUpdate protocol; TLC enumerates any pattern of update failures; after every step the application's store must "
             "equal the reference after a prefix and, overlaid with the unpersisted sections, the full reference.",
             technique=T, ref="6/C13"),
 "C19": dict(text="The MossColl data-path behaviours replayed under seeded adversarial concretisations of the abstract keys and values (empty key, 0x00/0xFF bytes, magic-like bytes, shared prefixes, empty values) "
             "through memory, merging, persistence, compaction and reopen; batches built plain, with Alloc/AllocSet/AllocDel/AllocMerge, mixed, in ascending and descending key order; "
             "batches with rejected oversize operations (MossColl op kinds xk, xv: ErrKeyTooLarge / ErrValueTooLarge must leave the rest of the batch alone); the longest accepted key (2^24-1 bytes) "
             "and, in the thorough tier, the longest accepted value (2^28-1 bytes); class-based exploration of the input dimension.",
             technique=T, ref="6/C19"),
 "C20": dict(text="TLC checks MossColl!GaugesZeroImpliesPersisted with Stats modelled as the code computes it; replays sample Stats() after every step and compare the lower level's own snapshot "
             "with the reference whenever all dirty gauges are zero (one open finding: structure-only batches).",
             technique=T, ref="6/C20"),
}

TS = "TLA+ model checking (TLC on MossStore) + replay of TLC-generated behaviours (rounds, I/O failures, crash images, history walks, read-only opens) into the real store"
TSB = " + trace validation of every footer swap against TraceStore.tla (direction B)"
STORE_NOTE = ("Trusted: TLC + CommunityModules Json; the File wrapper handed to StoreOptions.OpenFile forwards to *os.File; the crash model is the property's "
              "(any subset of the un-synced records of a file lost, the last write torn at byte classes; at record, not page, granularity); content in MossStore is abstract (batch numbers), key-level semantics "
              "of persisted data is decided by the store-backed MossColl replays; expected values are computed by TLC.")
CHECKS.update({
 "C05": dict(text="TLC checks MossStore (every file operation one action, Crash anywhere, Recover = openStore/ScanFooter) for RecoverIsPrefix/AtLeastSynced/OpenNeverFails; TLC-chosen crash points and "
             "disk images (per file any subset of the un-synced records lost, the last write torn) are checked for legality against the recorded syncs, materialised from the writes the implementation really issued "
             "(every tear offset class per record kind; the torn record ends the file or its unwritten tail reads as zeroes), reopened with the real OpenStore and compared; images of the deviation NoSyncBeforeFooter are legal only on a tree that does not sync before the footer.",
             technique=TS + TSB, ref="6/C05", engine="mossstore", note=STORE_NOTE),
 "C06": dict(text="TLC checks PublishedFooterReadable/CurrentFileExists with IOFail at every file operation; each abstract failing step is expanded into its concrete operations and error kinds "
             "(error, short write, stat error) on the recorded File; store content, a reopened copy of the directory, OnError/Persist errors and catch-up are compared.",
             technique=TS + TSB, ref="6/C06", engine="mossstore", note=STORE_NOTE),
 "C07": dict(text="TLC checks CompactionPreservesContent/FullCompactionShape/OldFilesGoAway over every splice point (policy is a parameter of the spec); forced full compactions, appends, idle rounds (nothing to do: nothing may change) and idle compactions are replayed, "
             "content before/after, footer shape (segments, deletion markers, duplicates) and the directory listing are compared; partial compactions at the splice points the store's own policy chooses are taken by "
             "store-backed MossColl replays (overwrites, deletions, a child collection, preloaded large segment, reopen) under small level parameters, sized values and CompactionPercentage 1.0; the evidence counts them.",
             technique=TS + TSB, ref="6/C07", engine="mossstore", note=STORE_NOTE),
 "C12": dict(text="TLC checks HistoryDescends/HistoryReadable; behaviours with SnapshotPrevious walks to every depth, SnapshotRevert to any footer of the walk, reopen and further rounds are replayed and "
             "the content at every position compared (store, collection, reopened copy of the directory).",
             technique=TS + TSB, ref="6/C12", engine="mossstore", note=STORE_NOTE),
 "C18": dict(text="TLC checks ReadOnlyFrame/ReadOnlyOpenFrame; directories left by rounds, failed compactions and crashes (plus junk files) are opened read-only and exercised; the directory hash, "
             "the recorded File operations and the os.Remove hook are checked after every step.",
             technique=TS + TSB, ref="6/C18", engine="mossstore", note=STORE_NOTE),
})

CHECKS.update({
 "C09": dict(text="TLC checks MossIter (cursor windows, heap order, Next, SeekTo with naive tries and restart, optimize() written as the code is) against the reference iterator for every shape, "
             "pair of bounds, program and combination of the iterator options IncludeDeletions / SkipLowerLevel of the configuration; the programs are run against real iterators (heap, single-segment and lower-level paths; mem / mossStore / application lower level).",
             technique="TLA+ model checking (TLC on MossIter) + TLC-generated iterator programs run against the implementation", ref="6/C09", engine="mossiter",
             note="Trusted: TLC + Json; concretisation of the doubled key domain to prefix-sharing byte strings (and a key set with the empty, 0x00 and 0xFF keys); expected values are the reference iterator's, computed by TLC."),
 "C14": dict(text="segment_index.go and the windowed binary searches transcribed into MossIndex; TLC evaluates WindowSound/SameAsNoIndex on every (key set, quota, probe) of the configuration; every case is run "
             "against a persisted segment opened with that quota and with indexing disabled (Get, range start, range end), also with scaled keys and filler keys so that hops above 2 occur.",
             technique="TLA+ transcription checked by TLC (one implementation test per TLC case)", ref="6/C14", engine="mossindex",
             note="Trusted: TLC + Json + SequencesExt; letters are concretised to 'a','b'; the real index shape under scaling/filling is not observable through the API (only results are compared)."),
 "C15": dict(text="TLC checks MossStore!AllClosedAllReleased/SnapFilesExist (reference chain footer -> mappings -> file, with child footers) and MossColl behaviours with snapshots, child snapshots and a store "
             "snapshot held across persistence, forced compaction, Close and reopen are replayed; held handles are re-read after every step and, after everything is closed (in both orders), "
             "/proc/self/fd, /proc/self/maps and the directory listing are polled.",
             technique=T, ref="6/C15"),
})

CHECKS.update({
 "C03": dict(text="MossVis states the visibility rule (a snapshot holds, per writer, exactly the batches pushed before its linearization point; at least those that had returned when the call started); TLC checks it "
             "on the bounded model and validates recorded traces of free-running concurrent executions (N writers on disjoint keys incl. a child collection -- batches that touch only the child, only the top level, or both --, thousands of shuffled keys per batch under DeferredSort, snapshot readers that re-read, Collection.Get readers, "
             "notifiers, back-pressure, store/app/mem) against TraceVis, with self-tests showing that a corrupted read or a dropped push event is rejected.",
             technique="TLA+ trace validation (TLC on TraceVis over recorded executions, direction B) + TLC on MossVis", ref="6/C03", engine="mossconc",
             note="Trusted: TLC + Json (ndJsonDeserialize); hook events are emitted under the collection mutex after the change and numbered from one counter shared with the driver's call/return events; pushes are attributed to writers through the Batch object identity."),
 "C16": dict(text="MossSync (mutex, condition variables, waitDirtyIncomingCh, bounded ping channel with pongs; writers, merger, persister with failing lower level, notifiers, closer) is checked by TLC for "
             "TopBounded, deadlock freedom, ClosedIsFinal and, under weak fairness, that every call returns; the counterexample schedules of its named deviations are replayed with gates on the real "
             "library; free-running runs with a closer, notifiers, slow/failing lower levels and MaxDirtyOps are recorded, watched for calls that do not return, and validated against TraceSync (runs with child-only batches without closer and notifier, and runs whose lower level fails every update, are watched for calls that do not return only); "
             "the repository's own tests are run with -tags verif and every hook event of every collection they create is validated against TraceHooks (section dynamics of MossColl, TopBounded at every event).",
             technique="TLA+ model checking incl. liveness (TLC on MossSync) + gated replay of counterexample schedules + trace validation (TraceSync; TraceHooks over the repository's tests)", ref="6/C16", engine="mossconc",
             note="Trusted: TLC (liveness under weak fairness) + Json; the ping channel capacity is a spec constant (1 or 2) bound to the code's 10 in the gated scenario; a call counts as hanging after 3 s (gated) / 20 s (free-running) with a progressing lower level."),
})

NA = {
 "C17": "data races are pairs of unsynchronised memory accesses below the grain of any action of a TLA+ specification; deciding them needs a race detector, a different family of technique (DESIGN.md section 7)",
}
PENDING = "check under construction in this session (specification and binding exist in DESIGN.md; not yet registered)"

def main():
    props = [json.loads(l)["id"] for l in open(os.path.join(VERIF, "properties.jsonl"))]
    checks = []
    for pid in props:
        if pid not in CHECKS:
            continue
        c = CHECKS[pid]
        checks.append({
            "property_id": pid,
            "quick_cmd": "bin/check %s --tier quick" % pid,
            "thorough_cmd": "bin/check %s --tier thorough" % pid,
            "evidence_file": "/verif/evidence/%s.json" % pid,
            "replay_cmd_template": "bin/check %s --replay {path}" % pid,
            "engine": c.get("engine", "mosscoll"),
            "level_claimed": {"category": "model_checking", "text": c["text"], "design_ref": "DESIGN.md section " + c["ref"]},
            "level_note": c.get("note", COLL_NOTE),
            "technique": c["technique"],
        })
    na = [{"property_id": p, "reason": NA.get(p, PENDING)} for p in props if p not in CHECKS]
    m = {
        "version": 1,
        "setup_cmd": "bin/setup",
        "hooks": {
            "guard": "verif",
            "enable": "go build -tags verif (harness module /verif/harness with replace github.com/couchbase/moss => /repo)",
            "baseline_off_cmd": "cd /repo && GOFLAGS=-mod=mod GOPROXY=off GOSUMDB=off go test -json -vet=off -count=1 -timeout 25m ./...",
            "source_commits": hook_commits(),
            "add_only": True,
        },
        "engines": [
            {"name": "mosscoll", "path": "bin/check_coll.py", "serves_properties": [p for p in ["C01","C02","C04","C08","C10","C11","C13","C15","C19","C20"] if p in CHECKS],
             "kind_free_text": "TLC on specs/MossColl.tla (MCColl.tla) + harness/cmd/replay (direction A: TLC behaviours replayed into the gated implementation)"},
            {"name": "mossiter", "path": "bin/check_iter.py", "serves_properties": ["C09"], "kind_free_text": "TLC on specs/MossIter.tla + harness/cmd/iterreplay"},
            {"name": "mossindex", "path": "bin/check_index.py", "serves_properties": ["C14"], "kind_free_text": "TLC on specs/MossIndex.tla + harness/cmd/indexreplay"},
            {"name": "mossconc", "path": "bin/check_conc.py", "serves_properties": ["C03", "C16"],
             "kind_free_text": "TLC on specs/MossVis.tla, MossSync.tla, TraceVis.tla, TraceSync.tla, TraceHooks.tla + harness/cmd/conc (recorded free-running executions) + harness/cmd/syncscen (gated counterexample schedules)"},
            {"name": "mossstore", "path": "bin/check_store.py", "serves_properties": [p for p in ["C05","C06","C07","C12","C18"] if p in CHECKS],
             "kind_free_text": "TLC on specs/MossStore.tla (MCStore.tla), TraceStore.tla + harness/cmd/storereplay (rounds forced through Store.Persist options, fault injection and crash-image materialisation through the recorded File)"},
        ],
        "checks": checks,
        "not_applicable": na,
        "notes": "Specifications in specs/, Go conformance harness in harness/, orchestration in bin/. Exit codes: 0 held, 1 VIOLATION line(s), 2 infrastructure problem. known_findings.json lists fixed and open findings.",
    }
    json.dump(m, open(os.path.join(VERIF, "MANIFEST.json"), "w"), indent=1)

main()
