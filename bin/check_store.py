#!/usr/bin/env python3
"""Checks decided with the MossStore specification (append-only file store):
C05 crash recovery, C06 I/O failures, C07 compaction, C12 history and revert,
C18 read-only opens.

TLC checks the invariants of MossStore on bounded configurations (every file
operation is an action; Crash, IOFail, snapshots interleave anywhere), then
generates behaviours (random walks, and lead behaviours of the named
deviations) that cmd/storereplay drives through the real store: rounds are
forced to append or to compact fully through Store.Persist options, failures
are injected into the recorded File, crash images chosen by TLC are
materialised from the writes the implementation really issued and reopened.
"""
import json
import os
import re
import shutil
import sys

sys.path.insert(0, os.path.dirname(os.path.abspath(__file__)))
import vlib
from vlib import Infra, log

BASE = {"NKeys": "3", "MaxBatches": "4", "MaxFiles": "4", "MaxRecs": "10", "NoSync": "FALSE",
        "Kinds": '{"append","full"}', "MaxFaults": "0", "MaxCrashes": "0", "MaxSnaps": "0", "MaxReverts": "0",
        "MaxReopens": "1", "AllowReadOnly": "FALSE", "WithKids": "TRUE", "Devs": "{}", "SimLen": "16"}

SAFETY = ["PublishedFooterReadable", "StoreIsPrefix", "AtLeastSynced", "OpenNeverFails", "CurrentFileExists",
          "SnapFilesExist", "OldFilesGoAway", "OnlyCurrentFileAfterClose", "HistoryDescends", "HistoryReadable", "AllClosedAllReleased"]
ACTIONS = ["CompactionPreservesContent", "FullCompactionShape", "ReadOnlyFrame", "ReadOnlyOpenFrame"]


def C(**kw):
    c = dict(BASE)
    c.update({k: str(v) for k, v in kw.items()})
    return c


def tree_devs(prop):
    devs = []
    for e in vlib.load_findings():
        if prop in e.get("properties", [e.get("property")]):
            devs += e.get("devs", [])
    return sorted(set(devs))


def plan(prop, tier):
    q = tier == "quick"
    P = {"leads": []}
    if prop == "C05":
        P["exhaustive"] = [("c05_crash", C(MaxCrashes=1, MaxBatches=3, MaxReopens=1, Kinds='{"append","full","partial"}'), SAFETY, ACTIONS),
                           ("c05_crash_nosync", C(MaxCrashes=1, MaxBatches=3, NoSync="TRUE"), SAFETY, ACTIONS)]
        # (one crash per behaviour: the materialiser rebuilds an image from the file operations recorded since the
        # directory was created, which a second crash -- on top of a materialised image -- does not have)
        P["sim"] = [("c05_walk", C(MaxCrashes=1, MaxBatches=5, SimLen=16, MaxReopens=1), 300 if q else 3000, 12),
                    ("c05_walk_nosync", C(MaxCrashes=1, MaxBatches=5, SimLen=16, NoSync="TRUE"), 100 if q else 1000, 12)]
        P["leads"] = [("c05_lead_scan", C(MaxCrashes=1, MaxBatches=3), ["ScanStopsOnShortRead"], ["LeadAtLeastSynced", "LeadOpenNeverFails"], 12),
                      ("c05_lead_hdr", C(MaxCrashes=1, MaxBatches=3), ["BadHeaderAbortsOpen", "NoValidFileFailsOpen"], ["LeadOpenNeverFails"], 4),
                      # images in which a footer survives while the data it points to is lost: legal only if the
                      # implementation does not sync between the two (the driver checks that against the recorded syncs)
                      ("c05_lead_sync", C(MaxCrashes=1, MaxBatches=3), ["NoSyncBeforeFooter"], ["LeadPublishedFooterReadable"], 1)]
        P["dims"] = {"c05_walk": [{"nkeys": 3}, {"nkeys": 3, "bigVals": True}], "c05_walk_nosync": [{"nkeys": 3, "noSync": True}],
                     "c05_lead_scan": [{"nkeys": 3}], "c05_lead_hdr": [{"nkeys": 3}], "c05_lead_sync": [{"nkeys": 3}, {"nkeys": 3, "bigVals": True}]}
        P["relevant"] = r"^crash\."
        P["rule"] = ("behaviours of MossStore with Crash actions: TLC chooses the crash point (between any two file operations of an append or "
                     "compaction round) and the disk image (any subset of the un-synced records of every file lost, the last write torn); the image is checked for legality against the recorded syncs and materialised from "
                     "the recorded writes of the implementation with every tear offset class of the record kind (the torn record ends the file, or its unwritten tail reads as zeroes because the file length was already extended), reopened, and must open and hold the "
                     "reference after a prefix at least as long as the last synced round; non-trivial = the image differs from the full disk content")
    elif prop == "C06":
        P["exhaustive"] = [("c06_faults", C(MaxFaults=2, MaxBatches=3, Kinds='{"append","full","partial"}'), SAFETY, ACTIONS)]
        P["sim"] = [("c06_walk", C(MaxFaults=3, MaxBatches=5, SimLen=18, MaxReopens=1), 300 if q else 3000, 6),
                    ("c06_walk_nosync", C(MaxFaults=3, MaxBatches=5, SimLen=18, NoSync="TRUE"), 100 if q else 1000, 6)]
        P["leads"] = [("c06_lead_cwe", C(MaxFaults=1, MaxBatches=3), ["CompactionWriteErrorsDropped"], ["LeadPublishedFooterReadable"], 6)]
        P["dims"] = {"c06_walk": [{"nkeys": 3}, {"nkeys": 3, "bigVals": True, "bufPages": 1}], "c06_walk_nosync": [{"nkeys": 3, "noSync": True}],
                     "c06_lead_cwe": [{"nkeys": 3}, {"nkeys": 3, "bigVals": True, "bufPages": 1}]}
        P["relevant"] = r"^fault\.|^round\.failed|^store\.|^coll\.|^reopen\."
        P["rule"] = ("behaviours of MossStore with IOFail actions (any file operation of any round, bursts, retries); every abstract failing step is "
                     "expanded into its concrete operations and error kinds (error, short write, stat error) on the recorded File; after the failure the "
                     "store and a reopened copy of the directory must hold a batch prefix no older than before, the failure must be surfaced, and later "
                     "rounds must catch up; non-trivial = a fault fired")
    elif prop == "C07":
        P["exhaustive"] = [("c07_compact", C(MaxBatches=4, MaxSnaps=1, Kinds='{"append","full","partial"}', MaxReopens=0), SAFETY, ACTIONS)]
        P["sim"] = [("c07_walk", C(MaxBatches=6, MaxSnaps=1, SimLen=22, MaxReopens=1, MaxFiles=5), 300 if q else 3000, 1)]
        P["dims"] = {"c07_walk": [{"nkeys": 3, "checkFiles": True}, {"nkeys": 3, "bigVals": True, "bufPages": 1, "checkFiles": True},
                                  {"nkeys": 3, "compSync": True, "checkFiles": True}, {"nkeys": 3, "keepFiles": True}]}
        P["relevant"] = r"^store\.|^coll\.|^shape\.|^files|^history\.snap|^reopen\."
        P["rule"] = ("behaviours of MossStore with append and forced full compaction rounds, store snapshots held across compactions; content before/after, "
                     "shape after a full compaction (one segment, no deletion markers, every key once) and the directory listing are compared; "
                     "non-trivial = the behaviour contains a full compaction after an earlier round")
    elif prop == "C12":
        P["exhaustive"] = [("c12_hist", C(MaxBatches=4, MaxSnaps=1, MaxReverts=1, MaxReopens=1), SAFETY, ACTIONS)]
        P["sim"] = [("c12_walk", C(MaxBatches=6, MaxSnaps=1, MaxReverts=2, SimLen=24, MaxReopens=1, MaxFiles=3), 300 if q else 3000, 1),
                    ("c12_walk_app", C(MaxBatches=6, MaxSnaps=1, MaxReverts=2, SimLen=24, MaxReopens=1, Kinds='{"append"}'), 200 if q else 2000, 1)]
        # kids: every batch mirrored into a child collection (collection from Store.OpenCollection; append-only behaviours)
        P["dims"] = {"c12_walk": [{"nkeys": 3}], "c12_walk_app": [{"nkeys": 3}, {"nkeys": 3, "bigVals": True}, {"nkeys": 3, "kids": True}]}
        P["relevant"] = r"^history\.|^revert\.|^reopen\.|^store\.|^coll\."
        P["rule"] = ("behaviours of MossStore with TakeSnap / Previous walks to every depth, Revert to any footer of the walk, reopen and further rounds; "
                     "the content at every step of the walk and after the revert (store, collection, reopened copy) is compared with TLC's; "
                     "non-trivial = the behaviour walks back at least one step or reverts")
    elif prop == "C18":
        P["exhaustive"] = [("c18_ro", C(MaxBatches=3, AllowReadOnly="TRUE", MaxReopens=2, MaxCrashes=1), SAFETY, ACTIONS)]
        P["sim"] = [("c18_walk", C(MaxBatches=5, AllowReadOnly="TRUE", MaxReopens=2, MaxCrashes=1, SimLen=20), 300 if q else 3000, 1)]
        P["leads"] = [("c18_lead", C(MaxBatches=3, AllowReadOnly="TRUE", MaxReopens=2, MaxCrashes=1), ["ReadOnlyCleansUp"], ["LeadReadOnlyFiles"], 1)]
        P["dims"] = {"c18_walk": [{"nkeys": 3}, {"nkeys": 3, "roJunk": True}, {"nkeys": 3, "keepFiles": True}], "c18_lead": [{"nkeys": 3}]}
        P["relevant"] = r"^readonly\.|^reopen\."
        P["rule"] = ("behaviours of MossStore in which a directory left by earlier rounds, failed compactions or a crash (several data files, incomplete newer "
                     "files, junk) is opened read-only and read, written to, notified, persisted and closed; the directory (names, sizes, SHA-256), the "
                     "recorded File operations and the os.Remove hook are checked after every step; non-trivial = a read-only open of a non-empty directory")
    else:
        raise Infra("no plan for %s" % prop)
    return P


def nontrivial(prop, r, beh):
    acts = [s["act"] for s in beh]
    if prop == "C05":
        for s in beh:
            if s["act"] == "Crash":
                return True
        return False
    if prop == "C06":
        return "IOFail" in acts
    if prop == "C07":
        seen = False
        for s in beh:
            if s["act"] == "RoundOk":
                if s["arg"]["kind"] == "full" and seen:
                    return True
                seen = True
        return False
    if prop == "C12":
        return "Previous" in acts or "Revert" in acts
    if prop == "C18":
        return any(s["act"] == "Reopen" and s["arg"]["ro"] and s["exp"]["upto"] > 0 for s in beh)
    return True


def generate(rep, work, name, consts, kind, arg, sd, prop):
    consts = dict(consts)
    cfg = os.path.join(work, name + "_gen.cfg")
    raw = []
    if kind == "sim":
        consts["Devs"] = vlib.tla_set(tree_devs(prop))
        vlib.write_cfg(cfg, consts, next_="SimNext", invariants=["SimPrint"], view="view")
        res = vlib.run_tlc("MCStore.tla", cfg, work, simulate=(max(1, arg // 8), 40, sd), workers=8, timeout=600, beh_sink=raw.append)
        rep.transitions += res.generated
        return vlib.dedup_behaviours(raw)
    devs_, invs = arg
    consts["Devs"] = vlib.tla_set(devs_)
    vlib.write_cfg(cfg, consts, invariants=invs, view="view")
    res = vlib.run_tlc("MCStore.tla", cfg, work, timeout=1200, beh_sink=raw.append)
    rep.add_tlc(name + " (lead harvesting, Devs=%s)" % ",".join(devs_), res, consts)
    behs = vlib.dedup_behaviours(raw)
    behs.sort(key=len)
    cap = 120 if rep.tier == "quick" else 1200
    if len(behs) > cap:
        step = len(behs) / float(cap)
        behs = [behs[int(i * step)] for i in range(cap)]
    rep.extra.setdefault("leads", []).append({"config": name, "devs": devs_, "violating_states": len(raw), "replayed": len(behs)})
    return behs


def classify(rep, prop, relevant, findings, results, behs, d, cfgname):
    rx = re.compile(relevant)
    for r in results:
        if r["status"] == "infra":
            rep.infra.append("%s dims=%s behaviour %d: %s" % (cfgname, json.dumps(d), r["id"], r.get("infra")))
            continue
        if r["status"] == "skip":
            # the crash image TLC chose is not one the crash model allows for the *recorded* trace
            # (the implementation synced between the lost record and a surviving one)
            rep.extra["crash_images_illegal_for_recorded_trace"] = rep.extra.get("crash_images_illegal_for_recorded_trace", 0) + 1
            continue
        rep.traces += 1
        if nontrivial(prop, r, behs[r["id"]]):
            rep.nontrivial.add((cfgname, r["id"], r.get("variant", 0)))
        reported = False
        for st in r.get("steps", []):
            rep.drift += len(st.get("drift", []))
            for mm in st.get("mismatches", []):
                # (a panic of the library that takes the process down is reported whatever the property)
                if reported or not (rx.search(mm["what"]) or mm["what"] == "crash.panic"):
                    continue
                f = vlib.match_finding(findings, prop, mm, {"dims": d})
                if f:
                    rep.known[f["id"]] = rep.known.get(f["id"], 0) + 1
                    continue
                dd = dict(d)
                dd["variant"] = r.get("variant", 0)
                desc = "%s dims=%s behaviour %d variant %d step %d (%s): %s got=%s want=%s" % (
                    cfgname, json.dumps(d), r["id"], r.get("variant", 0), st["step"], st["act"], mm["what"], mm.get("got"), mm.get("want"))
                rep.violation(desc, {"property": prop, "engine": "store", "config": cfgname, "dims": dd, "behaviour": behs[r["id"]],
                                     "step": st["step"], "mismatch": mm})
                reported = True


def run(prop, tier):
    rep = vlib.Report(prop, tier)
    P = plan(prop, tier)
    rep.rule = P["rule"]
    work = vlib.scratch(prop)
    vlib.build_harness(("storereplay",))
    findings = vlib.load_findings()
    sd = vlib.seed()
    for name, consts, invs, props in P["exhaustive"]:
        cfg = os.path.join(work, name + ".cfg")
        vlib.write_cfg(cfg, consts, invariants=invs, properties=props, view="view")
        res = vlib.run_tlc("MCStore.tla", cfg, work, timeout=1500)
        rep.add_tlc(name, res, consts)
        if res.violation:
            log("LEAD: TLC reports %s violated in %s" % (res.violation, name))
            rep.extra.setdefault("tlc_leads", []).append({"config": name, "violated": res.violation})
        else:
            rep.exhaustive = True
    gens = [("sim", n, c, cnt, v) for (n, c, cnt, v) in P["sim"]] + [("lead", n, c, (dv, iv), v) for (n, c, dv, iv, v) in P["leads"]]
    for kind, name, consts, arg, variants in gens:
        behs = generate(rep, work, name, consts, kind, arg, sd, prop)
        if not behs:
            if kind == "lead":
                continue
            raise Infra("no behaviours generated for %s" % name)
        bp = os.path.join(work, name + ".jsonl")
        vlib.write_behaviours(bp, behs)
        if len(rep.samples) < 3:
            rep.samples.append({"config": name, "behaviour": [[s["act"], {k: v for k, v in s["arg"].items() if k != "pre"}] for s in behs[len(behs) // 2]]})
        for d in P["dims"][name]:
            d = dict(d)
            d.setdefault("seed", sd)
            results, infra = vlib.run_replay(bp, d, binary="storereplay", extra_args=["-variants", str(variants)])
            rep.infra += infra
            rep.evaluations += len([r for r in results if r["status"] != "skip"])
            classify(rep, prop, P["relevant"], findings, results, behs, d, name)
            log("%s: %s dims=%s: %d replays (%d images illegal for the recorded trace), %d violations so far" % (prop, name, json.dumps(d), len([r for r in results if r["status"] != "skip"]), len([r for r in results if r["status"] == "skip"]), len(rep.violations)))
    if prop == "C07":
        # partial compactions at the splice points the implementation's own policy chooses, with child collections
        import check_coll
        check_coll.run_into(rep, "C07", tier)
    # direction B: every footer swap of every store these replays opened, against TraceStore.tla
    vlib.validate_replay_store_traces(rep, work, prop)
    rep.assumptions += [
        "TLC and the CommunityModules Json module",
        "content is abstract in MossStore (batch numbers); key-level semantics of persisted segments is decided by the store-backed MossColl replays",
        "crash model as stated in property C05 at the granularity of records (header, segment, footer): any subset of the un-synced records of a file is lost, the last write torn at any byte class; creations and unlinks ordered",
        "fault injection through StoreOptions.OpenFile (a File wrapping *os.File)",
    ]
    shutil.rmtree(work, ignore_errors=True)
    return rep.finish()


def replay(prop, path):
    vlib.build_harness(("storereplay",))
    obj = json.load(open(path))
    work = vlib.scratch(prop + "-replay")
    bp = os.path.join(work, "one.jsonl")
    vlib.write_behaviours(bp, [obj["behaviour"]])
    d = dict(obj["dims"])
    variant = d.pop("variant", 0)
    results, infra = vlib.run_replay(bp, d, nshards=1, binary="storereplay", extra_args=["-variants", str(variant + 1)])
    shutil.rmtree(work, ignore_errors=True)
    results = [r for r in results if r.get("variant", 0) == variant]
    if infra or not results or results[0]["status"] == "infra":
        log("INFRA:", infra, results[:1])
        return 2
    for i, st in enumerate(obj["behaviour"]):
        log("step %2d %-12s %s" % (i, st["act"], json.dumps({k: v for k, v in st["arg"].items() if k != "pre"})))
    r = results[0]
    for st in r.get("steps", []):
        for mm in st.get("mismatches", []):
            print("step %d (%s): %s got=%s want=%s" % (st["step"], st["act"], mm["what"], mm.get("got"), mm.get("want")))
    if r["status"] == "mismatch":
        print("VIOLATION property=%s replay=%s" % (prop, path))
        return 1
    print("replay: no mismatch on the current tree")
    return 0


if __name__ == "__main__":
    import argparse
    ap = argparse.ArgumentParser()
    ap.add_argument("prop")
    ap.add_argument("--tier", default=os.environ.get("VERIF_TIER", "quick"))
    ap.add_argument("--replay", default=None)
    a = ap.parse_args()
    if a.replay:
        vlib.main_wrapper(lambda: replay(a.prop, a.replay))
    else:
        vlib.main_wrapper(lambda: run(a.prop, a.tier))
