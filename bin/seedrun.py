#!/usr/bin/env python3
"""bin/seedrun.py <seeded-id> <PROPERTY> [more properties...]

Re-evaluates an already confirmed seeded change (seeded/<id>/patch.diff):
applies it to /repo, runs the quick check(s), reverts /repo straight afterwards,
restores the evidence files (evidence must come from the unchanged tree) and
records the outcome in seeded/<id>/meta.json (key "rounds")."""
import json, os, shutil, subprocess, sys, time, tempfile

ENV = dict(os.environ, GOFLAGS="-mod=mod", GOPROXY="off", GOSUMDB="off", GOTOOLCHAIN="local")
VERIF = os.path.dirname(os.path.dirname(os.path.abspath(__file__)))


def sh(cmd, cwd=None, timeout=3600):
    p = subprocess.run(cmd, shell=True, cwd=cwd, env=ENV, capture_output=True, text=True, timeout=timeout)
    return p.returncode, (p.stdout + p.stderr)


def main():
    sid, props = sys.argv[1], sys.argv[2:]
    tier = os.environ.get("SEED_TIER", "quick")
    out = os.path.join(VERIF, "seeded", sid)
    patch = os.path.join(out, "patch.diff")
    meta = json.load(open(os.path.join(out, "meta.json")))
    rc, o = sh("git -C /repo status --porcelain")
    assert o.strip() == "", "/repo is not clean: " + o
    keep = tempfile.mkdtemp(prefix="evkeep")
    ev = os.path.join(VERIF, "evidence")
    for fn in os.listdir(ev):
        if fn.endswith(".json"):
            shutil.copy(os.path.join(ev, fn), keep)
    before = set(os.listdir(os.path.join(ev, "replays"))) if os.path.isdir(os.path.join(ev, "replays")) else set()
    rc, o = sh("git -C /repo apply %s" % patch)
    assert rc == 0, "patch does not apply any more: " + o
    det = {}
    try:
        rc, o = sh("go build ./...", cwd="/repo")
        assert rc == 0, "does not build: " + o
        for p in props:
            t0 = time.time()
            rc, o = sh("python3 bin/check %s --tier %s" % (p, tier), cwd=VERIF)
            ls = o.splitlines()
            first = ""
            for i, l in enumerate(ls):
                if l.startswith("VIOLATION"):
                    first = (ls[i + 1] if i + 1 < len(ls) else "").strip()[:500]
                    break
            det[p] = {"exit": rc, "violations": len([l for l in ls if l.startswith("VIOLATION")]), "first": first, "wall_s": round(time.time() - t0)}
            if rc not in (0, 1):
                det[p]["tail"] = "\n".join(ls[-5:])[-600:]
    finally:
        sh("git -C /repo checkout -- .")
        for fn in os.listdir(keep):
            shutil.copy(os.path.join(keep, fn), ev)
        shutil.rmtree(keep)
        rp = os.path.join(ev, "replays")
        if os.path.isdir(rp):
            new = sorted(set(os.listdir(rp)) - before)
            for i, fn in enumerate(new):
                if i == 0:
                    shutil.copy(os.path.join(rp, fn), os.path.join(out, "example-replay" + os.path.splitext(fn)[1]))
                os.remove(os.path.join(rp, fn))
    rc, o = sh("git -C /repo status --porcelain")
    assert o.strip() == "", "/repo not clean after revert: " + o
    meta.setdefault("rounds", []).append({"tier": tier, "repo_head": sh("git -C /repo log --format=%h -1")[1].strip(), "results": det})
    meta["detected_by"] = dict(meta.get("detected_by", {}), **det)
    meta["detected"] = any(d["exit"] == 1 for d in meta["detected_by"].values())
    json.dump(meta, open(os.path.join(out, "meta.json"), "w"), indent=1)
    print(sid, json.dumps(det, indent=1))


main()
