#!/usr/bin/env python3
"""Checks decided with the MossColl specification (collection, merger,
persister, child collections, snapshots, Collection.Get, gauges, close and
reopen): C01 C02 C04 C08 C10 C11 C13 C19 C20.

  1. TLC checks the invariants on the bounded configurations of the property
     (exhaustive, Devs = {}: the design is right).
  2. TLC generates behaviours (one per transition of a small configuration,
     and random deep walks of a larger one) carrying the expected observables.
  3. The behaviours are replayed step by step into the real library with the
     merger and the persister held at the verif gates; after every step
     everything observable is read back and compared (direction A).
"""
import copy
import json
import os
import re
import sys

sys.path.insert(0, os.path.dirname(os.path.abspath(__file__)))
import vlib
from vlib import Infra, log

TREE_DEVS = []   # deviations describing the current tree (open findings); see known_findings.json


def tree_devs():
    path = os.path.join(vlib.VERIF, "known_findings.json")
    devs = []
    if os.path.exists(path):
        for e in json.load(open(path)).get("open", []):
            devs += e.get("devs", [])
    return sorted(set(devs))


BASE = {
    "NKeys": "2", "Paths": "<-McPaths", "Par": "<-McPar", "PathSeq": "<-McPathSeq", "BNodes": "<-McBNodes",
    "OpAlpha": '{"s1","s2","d"}', "MaxOps": "2", "Tree": '"flat"', "MaxBatches": "3", "MaxPre": "2",
    "HasLL": "TRUE", "LLInit": "TRUE", "CachePersisted": "FALSE", "MaxSnaps": "0", "MaxErrs": "0",
    "MaxReopens": "0", "MaxPokes": "1", "Devs": "{}", "SimLen": "14", "InitKeys": "{}", "InitKids": "{}",
}

PATHS = {"flat": [""], "a": ["", "a"], "ab": ["", "a", "b"], "aa": ["", "a", "a/a"], "aab": ["", "a", "a/a", "b"]}

ALL_INVS = ["ViewIsRef", "OverlayIsRef", "DirectGetAgrees", "CachedIsRef", "StoreIsPrefix",
            "GaugesZeroImpliesPersisted", "DrainedIsPersisted", "NamesAreRef", "Structure"]


def C(**kw):
    c = dict(BASE)
    c.update({k: str(v) for k, v in kw.items()})
    return c


def dims(mode, tree="flat", nkeys=2, maxpre=2, **kw):
    d = {"mode": mode, "maxPre": maxpre, "nkeys": nkeys, "paths": PATHS[tree], "compaction": "disable"}
    d.update(kw)
    return d


# dimensions under which the store's own policy takes *partial* compactions: values of very different sizes
# (segments in different levels), small level parameters, and a fragmentation threshold that never forces a full one
def partial(**kw):
    d = dict(compaction="allow", levelMaxSegs=2, levelMult=2, compactionPct=1.0, concr="sized", diskCheck=True)
    d.update(kw)
    return d


# --- per property: what TLC checks, what is generated, over which harness dimensions it is replayed,
# --- and which observations the property is about.
def plan(prop, tier):
    q = tier == "quick"
    sd0 = vlib.seed()
    P = {}
    if prop == "C01":
        P["exhaustive"] = [("c01_small", C(MaxBatches=2 if q else 3, MaxOps=2, MaxPokes=1), ALL_INVS)]
        P["sim"] = [("c01_walk", C(MaxBatches=6, MaxPokes=2, MaxPre=2, SimLen=18, CachePersisted="FALSE"), 60 if q else 400),
                    ("c01_walk_cp", C(MaxBatches=6, MaxPokes=2, SimLen=18, CachePersisted="TRUE"), 30 if q else 200),
                    ("c01_walk_mem", C(MaxBatches=6, MaxPokes=2, SimLen=14, HasLL="FALSE", LLInit="FALSE"), 30 if q else 200)]
        P["edges"] = [] if q else [("c01_edges", C(NKeys=1, OpAlpha='{"s1","s2","d"}', MaxOps=1, MaxBatches=3, MaxPokes=1))]
        P["dims"] = {
            "c01_walk": [dims("store"), dims("store", compaction="force"), dims("store", compaction="allow", levelMaxSegs=2, levelMult=2),
                         dims("app"), dims("store", deferredSort=True), dims("store", minMergePct=1e9), dims("store", minMergePct=1e-9, sparse=True)],
            "c01_walk_cp": [dims("store", cachePersisted=True), dims("app", cachePersisted=True, deferredSort=True)],
            "c01_walk_mem": [dims("mem"), dims("mem", deferredSort=True, minMergePct=1e9)],
            "c01_edges": [dims("store", nkeys=1), dims("app", nkeys=1), dims("store", nkeys=1, compaction="force")],
        }
        P["goals"] = [("c01_goal_shapes", C(NKeys=1, OpAlpha='{"s1","s2","d"}', MaxOps=1, MaxBatches=4, MaxPokes=1), ["GoalAllSections", "GoalIngestWhileBase", "GoalSwapAfterPersist"]),
                      ("c01_goal_shapes_cp", C(NKeys=1, OpAlpha='{"s1","s2","d"}', MaxOps=1, MaxBatches=4, MaxPokes=1, CachePersisted="TRUE"), ["GoalAllSections", "GoalIngestWhileBase"])]
        P["dims"]["c01_goal_shapes"] = [dims("store", nkeys=1), dims("app", nkeys=1)]
        P["dims"]["c01_goal_shapes_cp"] = [dims("store", nkeys=1, cachePersisted=True), dims("app", nkeys=1, cachePersisted=True)]
        P["goals"].append(("c01_goal_shadow_cp", C(NKeys=2, OpAlpha='{"s1","s2","d"}', MaxOps=1, MaxBatches=3, MaxPokes=0, CachePersisted="TRUE"), ["GoalBaseShadowsClean"]))
        P["dims"]["c01_goal_shadow_cp"] = [dims("store", cachePersisted=True), dims("app", cachePersisted=True)]
        P["dims"]["c01_walk"].append(dims("store", **partial()))
        P["relevant"] = r"^snapshot\.(get|iter|fault|seek)"
        P["rule"] = ("behaviours = TLC random walks / one per transition of MossColl, replayed with gated merger and persister; "
                     "distinct by action sequence; non-trivial = at some observation two or more of top/mid/base/clean were non-empty "
                     "(a read had to cross a section boundary)")
    elif prop == "C10":
        P["exhaustive"] = [("c10_small", C(MaxBatches=2 if q else 3, MaxOps=2, MaxPokes=1), ["DirectGetAgrees", "ViewIsRef"]),
                           ("c10_cache", C(NKeys=2, OpAlpha='{"s1","m1"}', MaxOps=1, MaxBatches=3, MaxSnaps=1, MaxPokes=0), ["CachedMemIsMem", "CachedIsRef", "ViewIsRef"])]
        P["sim"] = [("c10_walk", C(MaxBatches=6, MaxPokes=2, SimLen=18, OpAlpha='{"s1","s2","se","d"}'), 60 if q else 400),
                    ("c10_walk_mrg", C(MaxBatches=6, MaxPokes=2, SimLen=18, OpAlpha='{"s1","d","m1","m2"}'), 40 if q else 300),
                    ("c10_walk_cp", C(MaxBatches=6, MaxPokes=2, SimLen=18, CachePersisted="TRUE"), 30 if q else 200)]
        P["edges"] = []
        P["sim"].append(("c10_walk_mem", C(MaxBatches=6, MaxPokes=2, SimLen=14, HasLL="FALSE", LLInit="FALSE", OpAlpha='{"s1","d","m1","m2"}'), 30 if q else 200))
        # copyCheck: every value a copying Get returned is kept, must lie outside every mapping of the data
        # files, and must read the same once snapshot, collection and store are closed (second sentence of the
        # property); mergeAlias: a merge operator that hands back existingValue itself when the operand
        # changes nothing (an operator may do that), so that a lower-level value fetched without copying shows
        P["dims"] = {"c10_walk": [dims("store", copyCheck=True), dims("app")],
                     "c10_walk_mrg": [dims("store"), dims("store", compaction="force", copyCheck=True),
                                      dims("store", copyCheck=True, mergeAlias=True, concr="aliasmerge"),
                                      dims("store", copyCheck=True, mergeAlias=True, concr="aliasmerge", cachePersisted=True, compaction="force")],
                     "c10_walk_mem": [dims("mem"), dims("mem", deferredSort=True, copyCheck=True)],
                     "c10_walk_cp": [dims("store", cachePersisted=True, copyCheck=True)]}
        P["leads"] = [("c10_lead", C(NKeys=1, OpAlpha='{"s1","d","m1"}', MaxOps=1, MaxBatches=3), ["DirectGetChainsOnNil"], ["LeadDirectGetAgrees"])]
        P["dims"]["c10_lead"] = [dims("store", nkeys=1)]
        # states in which a cached snapshot would be stale for SkipLowerLevel reads (L29)
        P["leads"].append(("c10_lead_cache", C(NKeys=2, OpAlpha='{"s1","m1"}', MaxOps=1, MaxBatches=3, MaxSnaps=1, MaxPokes=0), ["SwapKeepsCachedSnapshot"], ["LeadCachedMemIsMem"]))
        P["dims"]["c10_lead_cache"] = [dims("store")]
        P["relevant"] = r"^coll\.get"
        P["rule"] = ("as C01; after every step Collection.Get, Snapshot.Get and the iteration entry of every key are compared "
                     "(with and without NoCopyValue); non-trivial = two or more sections non-empty at some observation")

    elif prop == "C02":
        P["exhaustive"] = [("c02_small", C(NKeys=1, MaxBatches=2 if q else 3, MaxOps=1, MaxSnaps=2, MaxPokes=1), ["ViewIsRef", "CachedIsRef", "Structure"])]
        P["sim"] = [("c02_walk", C(MaxBatches=6, MaxPokes=2, SimLen=20, MaxSnaps=2, MaxReopens=1), 80 if q else 500),
                    ("c02_walk_kids", C(Tree='"a"', NKeys=1, OpAlpha='{"s1","s2","d"}', MaxOps=1, MaxBatches=6, MaxPokes=2, SimLen=20, MaxSnaps=2, MaxReopens=1), 60 if q else 400),
                    ("c02_walk_mem", C(MaxBatches=6, MaxPokes=2, SimLen=16, MaxSnaps=2, HasLL="FALSE", LLInit="FALSE"), 30 if q else 200)]
        P["edges"] = []
        P["sim"].append(("c02_walk_pre", C(MaxBatches=5, MaxPokes=2, SimLen=18, MaxSnaps=1, MaxReopens=1, InitKeys="{1}"), 60 if q else 400))
        # nested child collections that are in the store from the start: a snapshot taken early reads its grandchild through the
        # lower level, again and again, while child snapshots of the level in between are opened and closed around it
        P["sim"].append(("c02_walk_kids2", C(Tree='"aa"', NKeys=1, OpAlpha='{"s1","s2","d"}', MaxOps=1, MaxBatches=5, MaxPokes=1, SimLen=18, MaxSnaps=2, InitKids='{"a","a/a"}'), 50 if q else 400))
        P["dims"] = {"c02_walk_kids2": [dims("store", "aa", 1, preloadKids=["a", "a/a"], rolling=True), dims("store", "aa", 1, preloadKids=["a", "a/a"], compaction="force")],
                     "c02_walk_pre": [dims("store", preload=[1], rolling=True), dims("store", preload=[1], compaction="force"), dims("store", preload=[1], rolling=True, **partial())],
                     "c02_walk": [dims("store", compaction="force", rolling=True), dims("store", compaction="allow", levelMaxSegs=1, levelMult=2),
                                  dims("store", cachePersisted=False, deferredSort=True, rolling=True), dims("app", rolling=True), dims("store", rolling=True, **partial()),
                                  dims("store", cachePersisted=True, rolling=True), dims("app", cachePersisted=True, rolling=True)],
                     "c02_walk_kids": [dims("store", "a", 1, compaction="force"), dims("store", "a", 1)],
                     "c02_walk_mem": [dims("mem")]}
        P["relevant"] = r"^heldsnap|^heldstore"
        P["rule"] = ("behaviours with TakeSnapshot at arbitrary states followed by batches / merger / persister / forced compaction (data file of the snapshot unlinked) / Close / reopen; "
                     "every open snapshot (and its child snapshots) is fully re-read after every later step; non-trivial = two or more sections non-empty at some observation")
    elif prop == "C04":
        P["exhaustive"] = [("c04_small", C(NKeys=1, MaxBatches=2, MaxOps=1, MaxReopens=1, MaxPokes=0), ["ViewIsRef", "StoreIsPrefix", "Structure"])]
        P["sim"] = [("c04_walk", C(MaxBatches=6, MaxPokes=2, SimLen=24, MaxReopens=2, OpAlpha='{"s1","s2","se","d"}'), 60 if q else 600),
                    ("c04_walk_kids", C(Tree='"aa"', NKeys=1, OpAlpha='{"s1","se","d"}', MaxOps=1, MaxBatches=6, MaxPokes=2, SimLen=24, MaxReopens=2), 50 if q else 500)]
        P["edges"] = []
        P["sim"].append(("c04_walk_pre", C(NKeys=3, MaxOps=1, MaxBatches=8, MaxPokes=1, SimLen=34, MaxReopens=2, OpAlpha='{"s1","s2","d"}', InitKeys="{1}"), 120 if q else 1200))
        P["sim"].append(("c04_walk_kids_pre", C(Tree='"aa"', NKeys=1, OpAlpha='{"s1","s2","d"}', MaxOps=1, MaxBatches=6, MaxPokes=1, SimLen=24, MaxReopens=2, InitKids='{"a","a/a"}'), 80 if q else 500))
        P["dims"] = {"c04_walk_kids_pre": [dims("store", "aa", 1, preloadKids=["a", "a/a"], diskCheck=True), dims("store", "aa", 1, preloadKids=["a", "a/a"], compaction="force", diskCheck=True)],
                     "c04_walk": [dims("store", diskCheck=True), dims("store", compaction="force", diskCheck=True), dims("store", compaction="allow", levelMaxSegs=2, levelMult=2), dims("store", noSync=True, deferredSort=True),
                                  dims("store", **partial())],
                     # preloadRounds: the store starts with 34 persisted rounds in one file -- a footer of more than a page, a long history
                     "c04_walk_pre": [dims("store", nkeys=3, preload=[1], **partial(levelMaxSegs=1)), dims("store", nkeys=3, preload=[1], **partial()),
                                      dims("store", nkeys=3, preload=[1], preloadRounds=34, diskCheck=True)],
                     "c04_walk_kids": [dims("store", "aa", 1), dims("store", "aa", 1, compaction="force"), dims("store", "aa", 1, compaction="allow", levelMaxSegs=1, levelMult=2),
                                       dims("store", "aa", 1, **partial())]}
        P["relevant"] = r"^reopen|^lower|^conformance|^gauges0\.lower"
        P["rule"] = ("behaviours with Close at arbitrary points relative to merger/persister progress and up to 2 close/reopen cycles, store-backed; after reopen the content must be "
                     "the reference (when the model says persistence had caught up) or the reference after a prefix; non-trivial = behaviour contains a Reopen")
    elif prop == "C08":
        P["exhaustive"] = [("c08_small", C(NKeys=2, OpAlpha='{"s1","d","m1"}', MaxOps=2, MaxBatches=2 if q else 3), ALL_INVS)]
        P["sim"] = [("c08_walk", C(NKeys=2, OpAlpha='{"s1","d","m1","m2"}', MaxBatches=7, MaxPokes=2, SimLen=22, MaxReopens=1), 100 if q else 600),
                    ("c08_walk_cp", C(NKeys=2, OpAlpha='{"s1","d","m1","m2"}', MaxBatches=6, MaxPokes=2, SimLen=20, CachePersisted="TRUE"), 60 if q else 400),
                    ("c08_walk_kid", C(Tree='"a"', NKeys=1, OpAlpha='{"s1","d","m1","m2"}', MaxOps=1, MaxBatches=6, MaxPokes=2, SimLen=20), 60 if q else 400),
                    ("c08_walk_mem", C(NKeys=2, OpAlpha='{"s1","d","m1","m2"}', MaxBatches=7, MaxPokes=2, SimLen=16, HasLL="FALSE", LLInit="FALSE"), 40 if q else 300)]
        P["edges"] = []
        P["sim"].append(("c08_walk_app", C(NKeys=2, OpAlpha='{"s1","d","m1","m2"}', MaxBatches=7, MaxPokes=2, SimLen=22, LLInit="FALSE", MaxErrs=1), 60 if q else 400))
        P["dims"] = {"c08_walk": [dims("store"), dims("store", compaction="force"), dims("store", compaction="allow", levelMaxSegs=2, levelMult=2), dims("store", **partial())],
                     "c08_walk_app": [dims("app"), dims("app", deferredSort=True)],
                     "c08_walk_cp": [dims("store", cachePersisted=True), dims("app", cachePersisted=True)],
                     "c08_walk_kid": [dims("store", "a", 1), dims("store", "a", 1, compaction="force")],
                     "c08_walk_mem": [dims("mem"), dims("mem", minMergePct=1e9)]}
        P["leads"] = [("c08_lead", C(NKeys=1, OpAlpha='{"s1","d","m1"}', MaxOps=1, MaxBatches=3, CachePersisted="TRUE"), ["CleanKeepsMergeOps"], ["LeadViewIsRef"])]
        P["dims"]["c08_lead"] = [dims("store", nkeys=1, cachePersisted=True)]
        if not q:
            # merge operands of a child collection resolved against a base whose child lower level snapshot is stale (L30); 0.8 M states
            P["leads"].append(("c08_lead_kid", C(Tree='"a"', NKeys=1, OpAlpha='{"m1"}', MaxOps=1, MaxBatches=4, MaxPokes=1), ["MergeBaseUsesBaseLL"], ["LeadViewIsRef"]))
            P["dims"]["c08_lead_kid"] = [dims("store", "a", 1)]
        P["goals"] = [("c08_goal_shapes", C(NKeys=2, OpAlpha='{"s1","m1","m2"}', MaxOps=1 if q else 2, MaxBatches=3, MaxPokes=1), ["GoalAllSections", "GoalIngestWhileBase", "GoalSwapAfterPersist"])]
        P["dims"]["c08_goal_shapes"] = [dims("store"), dims("app")]
        P["goals"].append(("c08_goal_mrg_ll", C(NKeys=2, OpAlpha='{"s1","m1","m2"}', MaxOps=1, MaxBatches=3, MaxPokes=0), ["GoalMergeOverLL"]))
        P["dims"]["c08_goal_mrg_ll"] = [dims("store"), dims("app"), dims("store", cachePersisted=True)]
        P["relevant"] = r"^(snapshot|coll|lower|reopen|heldsnap)"
        P["rule"] = ("behaviours over set/del/mrg with the non-commutative append operator; every read path at every step; non-trivial = the behaviour contains a Merge and "
                     "two or more sections were non-empty at some observation")
    elif prop == "C11":
        P["exhaustive"] = [("c11_small", C(Tree='"aa"', NKeys=1, OpAlpha='{"s1"}', MaxOps=1, MaxBatches=2 if q else 3, MaxPokes=0), ["ViewIsRef", "NamesAreRef", "StoreIsPrefix", "Structure"]),
                           # starting from a child collection restored from the store, with a reopen (29 k states at 3 batches)
                           ("c11_small_pre", C(Tree='"a"', NKeys=1, OpAlpha='{"s1"}', MaxOps=1, MaxBatches=3, MaxPokes=0, MaxReopens=1, InitKids='{"a"}'), ["ViewIsRef", "NamesAreRef", "StoreIsPrefix", "Structure"])]
        P["sim"] = [("c11_walk", C(Tree='"aa"', NKeys=1, OpAlpha='{"s1","s2","d"}', MaxOps=1, MaxBatches=7, MaxPokes=2, SimLen=24, MaxReopens=1), 120 if q else 800),
                    ("c11_walk_ab", C(Tree='"ab"', NKeys=1, OpAlpha='{"s1","d"}', MaxOps=1, MaxBatches=7, MaxPokes=2, SimLen=22, MaxReopens=1), 80 if q else 500),
                    ("c11_walk_mem", C(Tree='"aa"', NKeys=1, OpAlpha='{"s1","s2","d"}', MaxOps=1, MaxBatches=7, MaxPokes=2, SimLen=16, HasLL="FALSE", LLInit="FALSE"), 40 if q else 300)]
        P["edges"] = []
        P["dims"] = {"c11_walk": [dims("store", "aa", 1), dims("store", "aa", 1, compaction="force"), dims("store", "aa", 1, compaction="allow", levelMaxSegs=1, levelMult=2),
                                  dims("store", "aa", 1, **partial())],
                     "c11_walk_ab": [dims("store", "ab", 1), dims("store", "ab", 1, compaction="allow", levelMaxSegs=2, levelMult=2)],
                     "c11_walk_mem": [dims("mem", "aa", 1)]}
        P["leads"] = [("c11_lead", C(Tree='"a"', NKeys=1, OpAlpha='{"s1"}', MaxOps=1, MaxBatches=3, MaxPokes=0), ["ChildLLByNameOnly"], ["LeadViewIsRef"])]
        P["dims"]["c11_lead"] = [dims("store", "a", 1), dims("store", "a", 1, compaction="force")]
        P["goals"] = [("c11_goal_recreate", C(Tree='"a"', NKeys=1, OpAlpha='{"s1"}', MaxOps=1, MaxBatches=3, MaxPokes=0, MaxReopens=1), ["GoalRecreatedAfterReopen"])]
        P["dims"]["c11_goal_recreate"] = [dims("store", "a", 1), dims("store", "a", 1, compaction="force")]
        # behaviours that start with child collections restored from the store (restoreCollection), then delete / recreate / nest
        P["sim"].append(("c11_walk_pre", C(Tree='"aa"', NKeys=1, OpAlpha='{"s1","s2","d"}', MaxOps=1, MaxBatches=6, MaxPokes=1, SimLen=20, MaxReopens=1, InitKids='{"a","a/a"}'), 100 if q else 700))
        P["dims"]["c11_walk_pre"] = [dims("store", "aa", 1, preloadKids=["a", "a/a"]), dims("store", "aa", 1, preloadKids=["a", "a/a"], compaction="force")]
        P["sim"].append(("c11_walk_pre_ab", C(Tree='"ab"', NKeys=1, OpAlpha='{"s1","d"}', MaxOps=1, MaxBatches=6, MaxPokes=1, SimLen=20, MaxReopens=1, InitKids='{"a","b"}'), 60 if q else 400))
        P["dims"]["c11_walk_pre_ab"] = [dims("store", "ab", 1, preloadKids=["a", "b"])]
        P["relevant"] = r"^(snapshot|lower|reopen|heldsnap)\.(names|child)|^(snapshot|lower|reopen|heldsnap)\.(get|iter)#child|^conformance|^reopencopy"
        P["rule"] = ("behaviours over a tree of child names (create, write, child-only batches, delete, recreate, nested children); names and content of every child at every "
                     "nesting level read from collection snapshots, the store snapshot and after reopen; non-trivial = some child was deleted or recreated in the behaviour")
    elif prop == "C13":
        P["exhaustive"] = [("c13_small", C(MaxBatches=2 if q else 3, MaxOps=2, MaxErrs=2, LLInit="FALSE"), ["ViewIsRef", "OverlayIsRef", "StoreIsPrefix", "DrainedIsPersisted", "Structure"])]
        P["sim"] = [("c13_walk", C(MaxBatches=7, MaxPokes=2, SimLen=22, MaxErrs=3, LLInit="FALSE", OpAlpha='{"s1","s2","d","m1"}'), 120 if q else 800),
                    ("c13_walk_cp", C(MaxBatches=7, MaxPokes=2, SimLen=22, MaxErrs=3, LLInit="FALSE", CachePersisted="TRUE"), 60 if q else 400)]
        P["edges"] = []
        P["dims"] = {"c13_walk": [dims("app"), dims("app", deferredSort=True, minMergePct=1e9)],
                     "c13_walk_cp": [dims("app", cachePersisted=True)]}
        P["goals"] = [("c13_goal_idle", C(NKeys=1, OpAlpha='{"s1","d"}', MaxOps=1, MaxBatches=3, MaxPokes=2, LLInit="FALSE"), ["GoalDataBehindIdleRound", "GoalSwapAfterPersist"]),
                      ("c13_goal_fail", C(NKeys=1, OpAlpha='{"s1","d"}', MaxOps=1, MaxBatches=2, MaxPokes=2, MaxErrs=1, LLInit="FALSE"), ["GoalFailDuringEmptyCycle"])]
        P["dims"]["c13_goal_idle"] = [dims("app", nkeys=1), dims("app", nkeys=1, cachePersisted=True)]
        P["dims"]["c13_goal_fail"] = [dims("app", nkeys=1)]
        P["relevant"] = r"^lower|^snapshot|^conformance"
        P["rule"] = ("behaviours with an application lower level applying the documented protocol, any pattern of LowerLevelUpdate failures; after every step the application's "
                     "store must be the reference after a prefix and the collection view the full reference; non-trivial = the behaviour contains a failed update or two non-empty sections")
    elif prop == "C20":
        P["exhaustive"] = [("c20_small", C(MaxBatches=2 if q else 3, MaxOps=2), ["GaugesZeroImpliesPersisted", "DrainedIsPersisted"])]
        P["sim"] = [("c20_walk", C(MaxBatches=7, MaxPokes=2, SimLen=20), 80 if q else 500),
                    ("c20_walk_kids", C(Tree='"aa"', NKeys=1, OpAlpha='{"s1","d"}', MaxOps=1, MaxBatches=7, MaxPokes=2, SimLen=20), 120 if q else 800),
                    ("c20_walk_cp", C(MaxBatches=7, MaxPokes=2, SimLen=20, CachePersisted="TRUE"), 40 if q else 300)]
        P["edges"] = []
        P["dims"] = {"c20_walk": [dims("store"), dims("app"), dims("store", compaction="force")],
                     "c20_walk_kids": [dims("store", "aa", 1), dims("store", "aa", 1, compaction="force")],
                     "c20_walk_cp": [dims("store", cachePersisted=True)]}
        # failing lower-level updates (the gauges must stay non-zero until a retry succeeds), and the state in which an update
        # fails while the merger is in the middle of a cycle that has nothing to merge
        P["sim"].append(("c20_walk_err", C(MaxBatches=6, MaxPokes=2, SimLen=20, MaxErrs=2), 60 if q else 400))
        # (application lower level: a store-backed round without anything to write cannot be made to fail through the File wrapper)
        P["dims"]["c20_walk_err"] = [dims("app"), dims("app", cachePersisted=True)]
        P["goals"] = [("c20_goal_fail", C(NKeys=1, OpAlpha='{"s1","d"}', MaxOps=1, MaxBatches=2, MaxPokes=2, MaxErrs=1), ["GoalFailDuringEmptyCycle"])]
        P["dims"]["c20_goal_fail"] = [dims("store", nkeys=1), dims("app", nkeys=1)]
        P["leads"] = [("c20_lead", C(Tree='"a"', NKeys=1, OpAlpha='{"s1","d"}', MaxOps=1, MaxBatches=2, MaxPokes=0), ["GaugesRootOnly"], ["LeadGaugesZeroImpliesPersisted"])]
        P["dims"]["c20_lead"] = [dims("store", "a", 1)]
        P["relevant"] = r"^gauges0|^conformance"
        P["rule"] = ("Stats() sampled after every step of every behaviour; whenever all three dirty gauges are zero the lower level's own snapshot is compared with the reference; "
                     "non-trivial = the gauges were zero at some observation after the first batch")
    elif prop == "C19":
        P["exhaustive"] = [("c19_small", C(MaxBatches=2, MaxOps=2, OpAlpha='{"s1","se","d"}'), ["ViewIsRef", "StoreIsPrefix"])]
        P["sim"] = [("c19_walk", C(NKeys=3, MaxBatches=6, MaxPokes=2, SimLen=22, MaxReopens=1, OpAlpha='{"s1","s2","se","d","m1"}'), 100 if q else 600)]
        P["edges"] = []
        P["dims"] = {"c19_walk": [dims("store", nkeys=3, concr="edge", seed=sd0 + i, compaction=c, deferredSort=(i % 2 == 1), cachePersisted=False)
                                  for i, c in enumerate(["disable", "force", "allow", "disable"] if q else ["disable", "force", "allow"] * 4)]
}
        P["sim"].append(("c19_walk_zero", C(NKeys=2, MaxBatches=6, MaxOps=1, MaxPokes=2, SimLen=22, MaxReopens=1, OpAlpha='{"s1","se","d"}'), 80 if q else 500))
        P["dims"]["c19_walk"] += [dims("store", nkeys=3, concr="edge", seed=sd0, allocBatches=True), dims("store", nkeys=3, concr="edge", seed=sd0 + 1, allocBatches=True, opOrder="desc")]
        P["dims"]["c19_walk_zero"] = [dims("store", nkeys=2, concr="emptykey"), dims("store", nkeys=2, concr="emptykey", compaction="force"),
                                      dims("store", nkeys=2, concr="emptykey", allocBatches=True), dims("store", nkeys=2, concr="emptykey", allocBatches=True, opOrder="desc"),
                                      dims("store", nkeys=2, concr="emptykey", opOrder="desc", compaction="force")]
        # oversize operations (rejected, must not disturb the rest of the batch) in plain, Alloc-built and mixed batches
        P["sim"].append(("c19_walk_rej", C(NKeys=2, MaxBatches=5, MaxOps=2, MaxPokes=1, SimLen=16, MaxReopens=1, OpAlpha='{"s1","s2","d","m1","xk","xv"}'), 50 if q else 400))
        P["dims"]["c19_walk_rej"] = [dims("store", nkeys=2), dims("store", nkeys=2, allocBatches=True), dims("store", nkeys=2, allocBatches=True, allocMix=True, compaction="force")]
        # the longest accepted key (2^24-1 bytes) and page-multiple values; thorough: the longest accepted value (2^28-1 bytes)
        P["sim"].append(("c19_walk_lim", C(NKeys=2, MaxBatches=4, MaxOps=2, MaxPokes=1, SimLen=14, MaxReopens=1, OpAlpha='{"s1","s2","d","m1"}'), 16 if q else 80))
        P["dims"]["c19_walk_lim"] = [dims("store", nkeys=2, concr="limits"), dims("store", nkeys=2, concr="limits", compaction="force", allocBatches=True)]
        if not q:
            P["sim"].append(("c19_walk_lim28", C(NKeys=1, MaxBatches=3, MaxOps=1, MaxPokes=1, SimLen=10, MaxReopens=1, OpAlpha='{"s1","s2","d"}'), 6))
            P["dims"]["c19_walk_lim28"] = [dims("store", nkeys=1, concr="limits28", shards=1), dims("store", nkeys=1, concr="limits28", allocBatches=True, compaction="force", shards=1)]
        # persisted segments opened with a key index (SegmentKeysIndexMinKeyBytes lowered) of a quota that runs out mid-way, keys of very different lengths
        P["sim"].append(("c19_walk_idx", C(NKeys=6, MaxOps=6, MaxBatches=4, MaxPokes=1, SimLen=16, MaxReopens=1, OpAlpha='{"s1","s2","d"}'), 60 if q else 500))
        P["dims"]["c19_walk_idx"] = [dims("store", nkeys=6, concr="edge", seed=sd0 + i, indexMinKeyBytes=1, indexMaxBytes=mx, compaction=c)
                                     for i, (mx, c) in enumerate([(12, "force"), (24, "force"), (28, "force"), (32, "force"), (36, "force"), (40, "force"), (32, "disable"), (24, "allow")])]
        # child collections under the API variants: child batches of two operations put in descending key order, with
        # DeferredSort / CachePersisted / Alloc-built batches (the parent batch holds none, one or two operations)
        P["sim"].append(("c19_walk_kids", C(Tree='"a"', NKeys=2, OpAlpha='{"s1","s2","d"}', MaxOps=2, MaxBatches=5, MaxPokes=1, SimLen=18, MaxReopens=1), 60 if q else 400))
        P["dims"]["c19_walk_kids"] = [dims("store", "a", 2, deferredSort=True, opOrder="desc"), dims("store", "a", 2, deferredSort=True, opOrder="desc", cachePersisted=True, compaction="force"),
                                      dims("store", "a", 2, allocBatches=True, opOrder="desc", concr="edge", seed=sd0)]
        P["relevant"] = r"^(snapshot|coll|lower|reopen|heldsnap|batch)"
        P["rule"] = ("the data-path behaviours replayed under seeded adversarial concretisations (empty key, 0x00/0xFF, magic-like bytes, prefix-sharing keys, empty values); "
                     "non-trivial = two or more sections non-empty at some observation")

    elif prop == "C07":
        P["exhaustive"] = []
        P["sim"] = [("c07_walk_kids", C(Tree='"a"', NKeys=2, OpAlpha='{"s1","s2","d"}', MaxOps=2, MaxBatches=8, MaxPokes=1, SimLen=30, MaxReopens=1), 100 if q else 800),
                    ("c07_walk_flat", C(NKeys=2, OpAlpha='{"s1","s2","d"}', MaxOps=2, MaxBatches=8, MaxPokes=1, SimLen=30, MaxReopens=1), 60 if q else 500),
                    ("c07_walk_pre", C(Tree='"a"', NKeys=2, OpAlpha='{"s1","s2","d"}', MaxOps=2, MaxBatches=8, MaxPokes=1, SimLen=34, MaxReopens=1, InitKeys="{1}"), 60 if q else 500)]
        P["edges"] = []
        # nested children whose level in between holds no key of its own, under forced and leveled compaction
        P["sim"].append(("c07_walk_kids2", C(Tree='"aa"', NKeys=1, OpAlpha='{"s1","s2","d"}', MaxOps=1, MaxBatches=6, MaxPokes=1, SimLen=24, MaxReopens=1), 40 if q else 300))
        allow = [partial(levelMaxSegs=m, levelMult=x) for (m, x) in ((2, 2), (2, 3), (3, 2))] + [dict(compaction="allow", levelMaxSegs=1, levelMult=2)]
        P["dims"] = {"c07_walk_kids": [dims("store", "a", 2, **a) for a in allow] + [dims("store", "a", 2, compaction="force")],
                     "c07_walk_kids2": [dims("store", "aa", 1, compaction="force"), dims("store", "aa", 1, compaction="allow", levelMaxSegs=1, levelMult=2)],
                     "c07_walk_flat": [dims("store", **a) for a in allow[:2]],
                     "c07_walk_pre": [dims("store", "a", 2, preload=[1], **a) for a in (partial(levelMaxSegs=1), partial())]}
        P["relevant"] = r"^(lower|snapshot|reopen|heldstore|conformance)"
        P["rule"] = ("store-backed MossColl behaviours (overwrites, deletions, a child collection, reopen) replayed under CompactionAllow with small level parameters, so that the "
                     "implementation's own policy takes partial compactions at several splice points, and under CompactionForce; the store content and the collection content are "
                     "compared with the reference after every persistence round; non-trivial = two or more sections non-empty at some observation")
    elif prop == "C15":
        import check_store
        P["exhaustive"] = [("c15_handles", C(NKeys=1, OpAlpha='{"s1"}', MaxOps=1, MaxBatches=2, MaxSnaps=2, MaxReopens=1, MaxPokes=0), ["ViewIsRef", "Structure"]),
                           ("c15_refs", check_store.C(MaxBatches=3, MaxSnaps=2, MaxReopens=1, MaxCrashes=0, Kinds='{"append","full"}'),
                            ["AllClosedAllReleased", "SnapFilesExist", "CurrentFileExists", "OldFilesGoAway", "OnlyCurrentFileAfterClose"], "MCStore.tla")]
        P["sim"] = [("c15_walk", C(MaxBatches=6, MaxPokes=2, SimLen=22, MaxSnaps=2, MaxReopens=1, InitKeys="{1}"), 80 if q else 600),
                    ("c15_walk_kids", C(Tree='"aa"', NKeys=1, OpAlpha='{"s1","d"}', MaxOps=1, MaxBatches=6, MaxPokes=2, SimLen=22, MaxSnaps=2, MaxReopens=1), 80 if q else 600)]
        P["edges"] = []
        P["leads"] = [("c15_lead_refs", check_store.C(MaxBatches=3, MaxSnaps=1, MaxReopens=1, Kinds='{"append","full"}'), ["ChildFootersNotReleased"], ["LeadAllClosedAllReleased"], "MCStore.tla")]
        P["dims"] = {"c15_walk": [dims("store", preload=[1], leakCheck=True, rolling=True), dims("store", preload=[1], leakCheck=True, compaction="force", closeOrder="storeFirst"),
                                  dims("store", preload=[1], leakCheck=True, rolling=True, cachePersisted=True), dims("store", preload=[1], leakCheck=True, rolling=True, compaction="force"),
                                  dims("store", preload=[1], leakCheck=True, rolling=True, **partial()), dims("store", preload=[1], leakCheck=True, rolling=True, **partial(levelMaxSegs=3)),
                                  dims("store", preload=[1], leakCheck=True, compaction="force", keepFiles=True)],
                     "c15_walk_kids": [dims("store", "aa", 1, leakCheck=True), dims("store", "aa", 1, leakCheck=True, compaction="force"),
                                       dims("store", "aa", 1, leakCheck=True, compaction="allow", levelMaxSegs=1, levelMult=2, closeOrder="storeFirst")],
                     "c15_lead_refs": []}
        P["relevant"] = r"^leak\.|^heldsnap|^heldstore|^persister\.exit"
        P["rule"] = ("behaviours with collection snapshots, child snapshots and a store snapshot held across batches, persistence, forced compaction, Close and reopen; every held "
                     "handle is re-read after every step; when the behaviour ends (and after every CloseEnd with nothing held) everything left open is closed in the order "
                     "the dimensions choose and /proc/self/fd, /proc/self/maps and the directory listing are polled; non-trivial = a handle was held across a persistence round or a close")
    else:
        raise Infra("no plan for %s" % prop)
    return P


def generate(rep, work, name, consts, kind, n, sd):
    devs = tree_devs()
    consts = dict(consts)
    consts["Devs"] = vlib.tla_set(devs)
    cfg = os.path.join(work, name + "_gen.cfg")
    raw = []
    if kind == "sim":
        vlib.write_cfg(cfg, consts, next_="SimNext", invariants=["SimPrint"], view="view")
        per = max(1, (n * 3) // 8)   # 8 TLC workers; measured: about one distinct behaviour per requested walk
        res = vlib.run_tlc("MCColl.tla", cfg, work, simulate=(per, 40, sd), workers=8, timeout=600, beh_sink=raw.append)
        rep.transitions += res.generated
    elif kind == "goal":
        vlib.write_cfg(cfg, consts, invariants=n, view="view")
        res = vlib.run_tlc("MCColl.tla", cfg, work, timeout=1200, beh_sink=raw.append)
        rep.add_tlc(name + " (goal-directed behaviours: %s)" % ",".join(n), res, consts)
        behs = vlib.dedup_behaviours(raw)
        behs.sort(key=len)
        cap = 200 if os.environ.get("VERIF_TIER", "quick") == "quick" else 2000
        if len(behs) > cap:
            step = len(behs) / float(cap)
            behs = [behs[int(i * step)] for i in range(cap)]
        rep.extra.setdefault("goals", []).append({"config": name, "goals": n, "goal_states": len(raw), "replayed": len(behs)})
        return behs
    elif kind == "lead":
        devs_, invs = n
        consts["Devs"] = vlib.tla_set(devs_)
        vlib.write_cfg(cfg, consts, invariants=invs, view="view")
        res = vlib.run_tlc("MCColl.tla", cfg, work, timeout=1200, beh_sink=raw.append)
        rep.add_tlc(name + " (lead harvesting, Devs=%s)" % ",".join(devs_), res, consts)
        behs = vlib.dedup_behaviours(raw)
        behs.sort(key=len)
        cap = 150 if os.environ.get("VERIF_TIER", "quick") == "quick" else 1500
        if len(behs) > cap:
            step = len(behs) / float(cap)
            behs = [behs[int(i * step)] for i in range(cap)]
        rep.extra.setdefault("leads", []).append({"config": name, "devs": devs_, "violating_states": len(raw), "replayed": len(behs)})
        return behs
    else:
        vlib.write_cfg(cfg, consts, view="view", action_constraints=["Edge"])
        res = vlib.run_tlc("MCColl.tla", cfg, work, timeout=1200, beh_sink=raw.append)
        rep.add_tlc(name + " (edge generation)", res, consts)
    behs = vlib.dedup_behaviours(raw)
    return behs


def nontrivial(prop, r, beh):
    acts = [s["act"] for s in beh]
    if prop == "C15":
        held = False
        for a in acts:
            if a == "TakeSnapshot":
                held = True
            if held and a in ("PersisterSwap", "CloseEnd"):
                return True
        return "Reopen" in acts
    def has_op(o):
        return any(s["act"] == "ExecuteBatch" and any(op["o"] == o for n in s["arg"].values() for op in n["ops"]) for s in beh)
    if prop == "C04":
        return "Reopen" in acts
    if prop == "C08":
        return has_op("mrg") and r.get("cross", False)
    if prop == "C11":
        seen = set()
        for s in beh:
            if s["act"] != "ExecuteBatch":
                continue
            for p, n in s["arg"].items():
                if p and n["kind"] == "del" and p in seen:
                    return True
                if p and n["kind"] == "ops":
                    seen.add(p)
        return False
    if prop == "C13":
        return any(s["act"] == "PersisterUpdate" and not s["arg"]["ok"] for s in beh) or r.get("cross", False)
    if prop == "C20":
        return r.get("gz0", False)
    return r.get("cross", False)


def classify(rep, prop, relevant, findings, results, behs, d, cfgname):
    rx = re.compile(relevant)
    for r in results:
        if r["status"] == "infra":
            rep.infra.append("%s dims=%s behaviour %d: %s" % (cfgname, json.dumps(d), r["id"], r.get("infra")))
            continue
        rep.traces += 1
        rep.extra["partial_compactions_exercised"] = rep.extra.get("partial_compactions_exercised", 0) + r.get("partial", 0)
        rep.extra["full_compactions_exercised"] = rep.extra.get("full_compactions_exercised", 0) + r.get("full", 0)
        if nontrivial(prop, r, behs[r["id"]]):
            rep.nontrivial.add((cfgname, r["id"]))
        reported = False
        for st in r.get("steps", []):
            rep.drift += len(st.get("drift", []))
            whats = sorted(set(m2["what"] + ("#child" if m2.get("path") else "") for m2 in st.get("mismatches", [])))
            for mm in st.get("mismatches", []):
                mm["step_whats"] = whats
                if reported:
                    break
                # (a panic of the library that takes the process down is reported whatever the property)
                if not (rx.search(mm["what"] + ("#child" if mm.get("path") else "")) or mm["what"] == "crash.panic"):
                    continue
                m = re.search(r" pred=(.*)$", mm.get("want", ""))
                if m:
                    mm["pred_match"] = (m.group(1) == mm.get("got"))
                f = vlib.match_finding(findings, prop, mm, {"dims": d})
                if f:
                    rep.known[f["id"]] = rep.known.get(f["id"], 0) + 1
                    continue
                desc = "%s dims=%s behaviour %d step %d (%s): %s path=%r key=%s got=%s want=%s" % (
                    cfgname, json.dumps(d), r["id"], st["step"], st["act"], mm["what"], mm.get("path"), mm.get("key"),
                    mm.get("got"), mm.get("want"))
                rep.violation(desc, {"property": prop, "config": cfgname, "dims": d, "behaviour": behs[r["id"]],
                                     "step": st["step"], "mismatch": mm})
                reported = True


def run(prop, tier):
    rep = vlib.Report(prop, tier)
    run_into(rep, prop, tier)
    return rep.finish()


def run_into(rep, prop, tier):
    """Run the plan of `prop` and add what it finds to the report `rep` (which may belong to another engine)."""
    P = plan(prop, tier)
    rep.rule = (rep.rule + " || " if rep.rule else "") + P["rule"]
    work = vlib.scratch(prop + "-coll")
    vlib.build_harness(("replay",))
    findings = vlib.load_findings()
    sd = vlib.seed()
    # 1. exhaustive invariants on the bounded model
    for ex in P["exhaustive"]:
        name, consts, invs = ex[0], ex[1], ex[2]
        module = ex[3] if len(ex) > 3 else "MCColl.tla"
        cfg = os.path.join(work, name + ".cfg")
        vlib.write_cfg(cfg, consts, invariants=invs, properties=["UptoMonotone"] if module == "MCColl.tla" else [], view="view")
        res = vlib.run_tlc(module, cfg, work, timeout=1500)
        rep.add_tlc(name, res, consts)
        if res.violation:
            # a counterexample on the model alone is a lead, not a verdict (R1); it is reported as drift of the design
            log("LEAD: TLC reports %s violated in %s:\n%s" % (res.violation, name, "".join(res.trace[:60])))
            rep.extra.setdefault("tlc_leads", []).append({"config": name, "violated": res.violation})
        else:
            rep.exhaustive = True
    # 2+3. behaviours and replay
    os.environ["VERIF_TIER"] = tier
    gens = [("sim", n, c, cnt) for (n, c, cnt) in P["sim"]] + [("edges", n, c, 0) for (n, c) in P["edges"]] \
        + [("lead", n, c, (dv, iv)) for (n, c, dv, iv) in [l[:4] for l in P.get("leads", []) if len(l) == 4]] \
        + [("goal", n, c, g) for (n, c, g) in P.get("goals", [])]
    for l in [l for l in P.get("leads", []) if len(l) > 4]:   # leads of another module: model-level vacuity guard only
        n, c, dv, iv, module = l
        c = dict(c)
        c["Devs"] = vlib.tla_set(dv)
        cfg = os.path.join(work, n + ".cfg")
        cnt = []
        vlib.write_cfg(cfg, c, invariants=iv, view="view")
        res = vlib.run_tlc(module, cfg, work, timeout=1200, beh_sink=cnt.append)
        rep.add_tlc(n + " (deviation %s must violate the invariant on the model)" % ",".join(dv), res, c)
        rep.extra.setdefault("leads", []).append({"config": n, "devs": dv, "violating_states": len(cnt)})
        if not cnt:
            rep.infra.append("vacuity: deviation %s produced no violating state in %s" % (dv, n))
    for kind, name, consts, cnt in gens:
        behs = generate(rep, work, name, consts, kind, cnt, sd)
        if not behs:
            raise Infra("no behaviours generated for %s" % name)
        bp = os.path.join(work, name + ".jsonl")
        vlib.write_behaviours(bp, behs)
        if len(rep.samples) < 3:
            rep.samples.append({"config": name, "behaviour": [[s["act"], s["arg"]] for s in behs[len(behs) // 2]]})
        for d in P["dims"][name]:
            d = dict(d)
            d.setdefault("seed", sd)
            nsh = d.pop("shards", None)   # memory-hungry dimensions run fewer shards at a time
            results, infra = vlib.run_replay(bp, d, nshards=nsh)
            rep.infra += infra
            rep.evaluations += len(results)
            classify(rep, prop, P["relevant"], findings, results, behs, d, name)
            log("%s: %s dims=%s: %d behaviours replayed, %d violations so far" % (prop, name, json.dumps(d), len(results), len(rep.violations)))
    # direction B: every footer swap of every store these replays opened, against TraceStore.tla
    # (for the properties that are about what reaches the files; check_store validates its own)
    if prop in ("C04", "C07", "C11") and rep.prop == prop:
        vlib.validate_replay_store_traces(rep, work, prop)
    rep.assumptions += [
        "TLC and the CommunityModules Json module",
        "verif hooks are placed at the linearization points DESIGN.md section 8 lists",
        "expected values are computed by TLC (MossColl!Expect); the harness has no reference model",
        "exhaustiveness is within the constants of each configuration listed under coverage.configs",
    ]
    import shutil
    shutil.rmtree(work, ignore_errors=True)


def replay(prop, path):
    """Re-run one recorded violation (a replay file) against the current tree."""
    vlib.build_harness(("replay",))
    obj = json.load(open(path))
    work = vlib.scratch(prop + "-replay")
    bp = os.path.join(work, "one.jsonl")
    vlib.write_behaviours(bp, [obj["behaviour"]])
    results, infra = vlib.run_replay(bp, obj["dims"], nshards=1)
    import shutil
    shutil.rmtree(work, ignore_errors=True)
    if infra or not results or results[0]["status"] == "infra":
        log("INFRA:", infra, results[:1])
        return 2
    for i, st in enumerate(obj["behaviour"]):
        log("step %2d %-16s %s" % (i, st["act"], json.dumps(st["arg"])))
    r = results[0]
    for st in r.get("steps", []):
        for mm in st.get("mismatches", []):
            print("step %d (%s): %s path=%r key=%s got=%s want=%s" % (st["step"], st["act"], mm["what"], mm.get("path"), mm.get("key"), mm.get("got"), mm.get("want")))
        for dr in st.get("drift", []):
            print("step %d (%s): drift: %s" % (st["step"], st["act"], dr))
    if r["status"] == "mismatch":
        print("VIOLATION property=%s replay=%s" % (prop, path))
        return 1
    print("replay: no mismatch on the current tree")
    return 0


if __name__ == "__main__":
    import argparse
    ap = argparse.ArgumentParser()
    ap.add_argument("prop")
    ap.add_argument("--tier", default=os.environ.get("VERIF_TIER", "quick"))
    ap.add_argument("--replay", default=None)
    a = ap.parse_args()
    if a.replay:
        vlib.main_wrapper(lambda: replay(a.prop, a.replay))
    else:
        vlib.main_wrapper(lambda: run(a.prop, a.tier))
