#!/usr/bin/env python3
"""Checks decided with the MossColl specification (collection, merger,
persister, child collections, snapshots, Collection.Get, gauges, close and
reopen): C01 C02 C04 C08 C10 C11 C13 C19 C20.

  1. TLC checks the invariants on the bounded configurations of the property
     (exhaustive, Devs = {}: the design is right).
  2. TLC generates behaviours (one per transition of a small configuration,
     and random deep walks of a larger one) carrying the expected observables.
  3. The behaviours are replayed step by step into the real library with the
     merger and the persister held at the verif gates; after every step
     everything observable is read back and compared (direction A).
"""
import copy
import json
import os
import re
import sys

sys.path.insert(0, os.path.dirname(os.path.abspath(__file__)))
import vlib
from vlib import Infra, log

TREE_DEVS = []   # deviations describing the current tree (open findings); see known_findings.json


def tree_devs():
    path = os.path.join(vlib.VERIF, "known_findings.json")
    devs = []
    if os.path.exists(path):
        for e in json.load(open(path)).get("open", []):
            devs += e.get("devs", [])
    return sorted(set(devs))


BASE = {
    "NKeys": "2", "Paths": "<-McPaths", "Par": "<-McPar", "PathSeq": "<-McPathSeq", "BNodes": "<-McBNodes",
    "OpAlpha": '{"s1","s2","d"}', "MaxOps": "2", "Tree": '"flat"', "MaxBatches": "3", "MaxPre": "2",
    "HasLL": "TRUE", "LLInit": "TRUE", "CachePersisted": "FALSE", "MaxSnaps": "0", "MaxErrs": "0",
    "MaxReopens": "0", "MaxPokes": "1", "Devs": "{}", "SimLen": "14",
}

PATHS = {"flat": [""], "a": ["", "a"], "ab": ["", "a", "b"], "aa": ["", "a", "a/a"], "aab": ["", "a", "a/a", "b"]}

ALL_INVS = ["ViewIsRef", "OverlayIsRef", "DirectGetAgrees", "CachedIsRef", "StoreIsPrefix",
            "GaugesZeroImpliesPersisted", "DrainedIsPersisted", "NamesAreRef", "Structure"]


def C(**kw):
    c = dict(BASE)
    c.update({k: str(v) for k, v in kw.items()})
    return c


def dims(mode, tree="flat", nkeys=2, maxpre=2, **kw):
    d = {"mode": mode, "maxPre": maxpre, "nkeys": nkeys, "paths": PATHS[tree], "compaction": "disable"}
    d.update(kw)
    return d


# --- per property: what TLC checks, what is generated, over which harness dimensions it is replayed,
# --- and which observations the property is about.
def plan(prop, tier):
    q = tier == "quick"
    P = {}
    if prop == "C01":
        P["exhaustive"] = [("c01_small", C(MaxBatches=2 if q else 3, MaxOps=2, MaxPokes=1), ALL_INVS)]
        P["sim"] = [("c01_walk", C(MaxBatches=6, MaxPokes=2, MaxPre=2, SimLen=18, CachePersisted="FALSE"), 60 if q else 400),
                    ("c01_walk_cp", C(MaxBatches=6, MaxPokes=2, SimLen=18, CachePersisted="TRUE"), 30 if q else 200),
                    ("c01_walk_mem", C(MaxBatches=6, MaxPokes=2, SimLen=14, HasLL="FALSE", LLInit="FALSE"), 30 if q else 200)]
        P["edges"] = [] if q else [("c01_edges", C(NKeys=1, OpAlpha='{"s1","s2","d"}', MaxOps=1, MaxBatches=3, MaxPokes=1))]
        P["dims"] = {
            "c01_walk": [dims("store"), dims("store", compaction="force"), dims("store", compaction="allow", levelMaxSegs=2, levelMult=2),
                         dims("app"), dims("store", deferredSort=True), dims("store", minMergePct=1e9), dims("store", minMergePct=1e-9, sparse=True)],
            "c01_walk_cp": [dims("store", cachePersisted=True), dims("app", cachePersisted=True, deferredSort=True)],
            "c01_walk_mem": [dims("mem"), dims("mem", deferredSort=True, minMergePct=1e9)],
            "c01_edges": [dims("store", nkeys=1), dims("app", nkeys=1), dims("store", nkeys=1, compaction="force")],
        }
        P["relevant"] = r"^snapshot\.(get|iter|fault)"
        P["rule"] = ("behaviours = TLC random walks / one per transition of MossColl, replayed with gated merger and persister; "
                     "distinct by action sequence; non-trivial = at some observation two or more of top/mid/base/clean were non-empty "
                     "(a read had to cross a section boundary)")
    elif prop == "C10":
        P["exhaustive"] = [("c10_small", C(MaxBatches=2 if q else 3, MaxOps=2, MaxPokes=1), ["DirectGetAgrees", "ViewIsRef"])]
        P["sim"] = [("c10_walk", C(MaxBatches=6, MaxPokes=2, SimLen=18, OpAlpha='{"s1","s2","se","d"}'), 60 if q else 400),
                    ("c10_walk_mrg", C(MaxBatches=6, MaxPokes=2, SimLen=18, OpAlpha='{"s1","d","m1","m2"}'), 40 if q else 300),
                    ("c10_walk_cp", C(MaxBatches=6, MaxPokes=2, SimLen=18, CachePersisted="TRUE"), 30 if q else 200)]
        P["edges"] = []
        P["sim"].append(("c10_walk_mem", C(MaxBatches=6, MaxPokes=2, SimLen=14, HasLL="FALSE", LLInit="FALSE", OpAlpha='{"s1","d","m1","m2"}'), 30 if q else 200))
        P["dims"] = {"c10_walk": [dims("store"), dims("app")],
                     "c10_walk_mrg": [dims("store"), dims("store", compaction="force")],
                     "c10_walk_mem": [dims("mem"), dims("mem", deferredSort=True)],
                     "c10_walk_cp": [dims("store", cachePersisted=True)]}
        P["relevant"] = r"^coll\.get"
        P["rule"] = ("as C01; after every step Collection.Get, Snapshot.Get and the iteration entry of every key are compared "
                     "(with and without NoCopyValue); non-trivial = two or more sections non-empty at some observation")
    else:
        raise Infra("no plan for %s" % prop)
    return P


def generate(rep, work, name, consts, kind, n, sd):
    devs = tree_devs()
    consts = dict(consts)
    consts["Devs"] = vlib.tla_set(devs)
    cfg = os.path.join(work, name + "_gen.cfg")
    raw = []
    if kind == "sim":
        vlib.write_cfg(cfg, consts, next_="SimNext", invariants=["SimPrint"], view="view")
        per = max(1, n // 8)
        res = vlib.run_tlc("MCColl.tla", cfg, work, simulate=(per, 40, sd), workers=8, timeout=600, beh_sink=raw.append)
        rep.transitions += res.generated
    else:
        vlib.write_cfg(cfg, consts, view="view", action_constraints=["Edge"])
        res = vlib.run_tlc("MCColl.tla", cfg, work, timeout=1200, beh_sink=raw.append)
        rep.add_tlc(name + " (edge generation)", res, consts)
    behs = vlib.dedup_behaviours(raw)
    return behs


def classify(rep, prop, relevant, findings, results, behs, d, cfgname):
    rx = re.compile(relevant)
    for r in results:
        if r["status"] == "infra":
            rep.infra.append("%s dims=%s behaviour %d: %s" % (cfgname, json.dumps(d), r["id"], r.get("infra")))
            continue
        rep.traces += 1
        if r.get("cross"):
            rep.nontrivial.add((cfgname, r["id"]))
        reported = False
        for st in r.get("steps", []):
            rep.drift += len(st.get("drift", []))
            for mm in st.get("mismatches", []):
                if reported:
                    break
                if not rx.search(mm["what"]):
                    continue
                m = re.search(r" pred=(.*)$", mm.get("want", ""))
                if m:
                    mm["pred_match"] = (m.group(1) == mm.get("got"))
                f = vlib.match_finding(findings, prop, mm, {"dims": d})
                if f:
                    rep.known[f["id"]] = rep.known.get(f["id"], 0) + 1
                    continue
                desc = "%s dims=%s behaviour %d step %d (%s): %s path=%r key=%s got=%s want=%s" % (
                    cfgname, json.dumps(d), r["id"], st["step"], st["act"], mm["what"], mm.get("path"), mm.get("key"),
                    mm.get("got"), mm.get("want"))
                rep.violation(desc, {"property": prop, "config": cfgname, "dims": d, "behaviour": behs[r["id"]],
                                     "step": st["step"], "mismatch": mm})
                reported = True


def run(prop, tier):
    rep = vlib.Report(prop, tier)
    P = plan(prop, tier)
    rep.rule = P["rule"]
    work = vlib.scratch(prop)
    vlib.build_harness(("replay",))
    findings = vlib.load_findings()
    sd = vlib.seed()
    # 1. exhaustive invariants on the bounded model
    for name, consts, invs in P["exhaustive"]:
        cfg = os.path.join(work, name + ".cfg")
        vlib.write_cfg(cfg, consts, invariants=invs, properties=["UptoMonotone"], view="view")
        res = vlib.run_tlc("MCColl.tla", cfg, work, timeout=1500)
        rep.add_tlc(name, res, consts)
        if res.violation:
            # a counterexample on the model alone is a lead, not a verdict (R1); it is reported as drift of the design
            log("LEAD: TLC reports %s violated in %s:\n%s" % (res.violation, name, "".join(res.trace[:60])))
            rep.extra.setdefault("tlc_leads", []).append({"config": name, "violated": res.violation})
        else:
            rep.exhaustive = True
    # 2+3. behaviours and replay
    gens = [("sim", n, c, cnt) for (n, c, cnt) in P["sim"]] + [("edges", n, c, 0) for (n, c) in P["edges"]]
    for kind, name, consts, cnt in gens:
        behs = generate(rep, work, name, consts, kind, cnt, sd)
        if not behs:
            raise Infra("no behaviours generated for %s" % name)
        bp = os.path.join(work, name + ".jsonl")
        vlib.write_behaviours(bp, behs)
        if len(rep.samples) < 3:
            rep.samples.append({"config": name, "behaviour": [[s["act"], s["arg"]] for s in behs[len(behs) // 2]]})
        for d in P["dims"][name]:
            d = dict(d)
            d.setdefault("seed", sd)
            results, infra = vlib.run_replay(bp, d)
            rep.infra += infra
            rep.evaluations += len(results)
            classify(rep, prop, P["relevant"], findings, results, behs, d, name)
            log("%s: %s dims=%s: %d behaviours replayed, %d violations so far" % (prop, name, json.dumps(d), len(results), len(rep.violations)))
    rep.assumptions = [
        "TLC and the CommunityModules Json module",
        "verif hooks are placed at the linearization points DESIGN.md section 8 lists",
        "expected values are computed by TLC (MossColl!Expect); the harness has no reference model",
        "exhaustiveness is within the constants of each configuration listed under coverage.configs",
    ]
    import shutil
    shutil.rmtree(work, ignore_errors=True)
    return rep.finish()


if __name__ == "__main__":
    import argparse
    ap = argparse.ArgumentParser()
    ap.add_argument("prop")
    ap.add_argument("--tier", default=os.environ.get("VERIF_TIER", "quick"))
    a = ap.parse_args()
    vlib.main_wrapper(lambda: run(a.prop, a.tier))
