#!/usr/bin/env python3
"""bin/seedcheck.py <dir-with-mutant.diff> <PROPERTY> [more properties...]

Confirms a seeded change (written by an independent sub-agent): the patch
applies to HEAD of /repo, builds, the repository's tests still pass with it,
its demonstration fails with it and passes without it (all in a scratch
worktree under /tmp), and then runs the quick check(s) of /verif against /repo
with the patch applied (and reverts it straight afterwards).  Writes
seeded/<id>/{patch.diff, demo, meta.json}."""
import json, os, shutil, subprocess, sys, time

ENV = dict(os.environ, GOFLAGS="-mod=mod", GOPROXY="off", GOSUMDB="off", GOTOOLCHAIN="local")
VERIF = os.path.dirname(os.path.dirname(os.path.abspath(__file__)))


def sh(cmd, cwd=None, timeout=1800):
    p = subprocess.run(cmd, shell=True, cwd=cwd, env=ENV, capture_output=True, text=True, timeout=timeout)
    return p.returncode, (p.stdout + p.stderr)


def main():
    src = sys.argv[1]
    props = sys.argv[2:]
    sid = os.path.basename(src.rstrip("/")).replace("mut_", "")
    if len(sys.argv) > 2 and os.environ.get("SEED_ID"):
        sid = os.environ["SEED_ID"]
    out = os.path.join(VERIF, "seeded", sid)
    os.makedirs(out, exist_ok=True)
    patch = os.path.join(src, "mutant.diff")
    demo = os.path.join(src, "zz_demo_test.go")
    meta = {"id": sid, "breaks": props, "ran": []}
    wt = "/tmp/seedwt_%s" % sid
    sh("git -C /repo worktree remove --force %s" % wt)
    rc, o = sh("git -C /repo worktree add %s HEAD" % wt)
    assert rc == 0, o
    try:
        # demo passes without the change
        shutil.copy(demo, wt)
        rc, o = sh("go test -vet=off -count=2 -run 'TestSeededDemo$' .", cwd=wt, timeout=900)
        meta["demo_without_change"] = "pass" if rc == 0 else "FAIL"
        meta["ran"].append("go test -run TestSeededDemo (clean tree): exit %d" % rc)
        rc, o = sh("git apply %s" % patch, cwd=wt)
        assert rc == 0, "patch does not apply: " + o
        rc, o = sh("go build ./...", cwd=wt)
        meta["builds"] = rc == 0
        rc, o = sh("go test -vet=off -count=2 -run 'TestSeededDemo$' .", cwd=wt, timeout=900)
        meta["demo_with_change"] = "fail" if rc != 0 else "PASS"
        meta["ran"].append("go test -run TestSeededDemo (with change): exit %d" % rc)
        os.remove(os.path.join(wt, "zz_demo_test.go"))
        rc, o = sh("go test -vet=off -count=1 -timeout 25m ./... 2>&1 | grep -E '^(--- FAIL|ok|FAIL)'", cwd=wt, timeout=2400)
        if "FAIL" in o:   # the two historically flaky tests: retry once
            rc, o2 = sh("go test -vet=off -count=1 -timeout 25m ./... 2>&1 | grep -E '^(--- FAIL|ok|FAIL)'", cwd=wt, timeout=2400)
            o = o + " | retry: " + o2
            meta["suite_with_change"] = "pass" if "FAIL" not in o2 else "FAIL"
        else:
            meta["suite_with_change"] = "pass"
        meta["ran"].append("go test ./... (with change): %s" % o.strip().replace("\n", "; "))
    finally:
        sh("git -C /repo worktree remove --force %s" % wt)
    shutil.copy(patch, os.path.join(out, "patch.diff"))
    shutil.copy(demo, os.path.join(out, "demo_test.go.txt"))
    notes = os.path.join(src, "NOTES.md")
    if os.path.exists(notes):
        shutil.copy(notes, os.path.join(out, "NOTES.md"))
    # run the checks against /repo with the change applied
    rc, o = sh("git -C /repo status --porcelain")
    assert o.strip() == "", "/repo is not clean: " + o
    rc, o = sh("git -C /repo apply %s" % patch)
    assert rc == 0, o
    det = {}
    try:
        for p in props:
            t0 = time.time()
            rc, o = sh("python3 bin/check %s --tier quick" % p, cwd=VERIF, timeout=3000)
            lines = [l for l in o.splitlines() if l.startswith("VIOLATION")]
            first = ""
            for i, l in enumerate(o.splitlines()):
                if l.startswith("VIOLATION"):
                    nxt = o.splitlines()[i + 1] if i + 1 < len(o.splitlines()) else ""
                    first = nxt.strip()[:400]
                    break
            det[p] = {"exit": rc, "violations": len(lines), "first": first, "wall_s": round(time.time() - t0)}
            meta["ran"].append("bin/check %s --tier quick (with change): exit %d, %d VIOLATION lines" % (p, rc, len(lines)))
    finally:
        sh("git -C /repo checkout -- .")
    meta["detected_by"] = {p: d for p, d in det.items()}
    meta["detected"] = any(d["exit"] == 1 for d in det.values())
    json.dump(meta, open(os.path.join(out, "meta.json"), "w"), indent=1)
    print(json.dumps(meta, indent=1))


main()
