#!/usr/bin/env python3
"""Shared machinery of the moss verification checks (see DESIGN.md section 5).

Exit codes: 0 property held on everything explored (possibly KNOWN-FINDING
lines), 1 at least one VIOLATION line, 2 infrastructure problem (no verdict).
"""
import collections
import hashlib
import json
import os
import re
import shutil
import subprocess
import sys
import tempfile
import time

VERIF = os.path.dirname(os.path.dirname(os.path.abspath(__file__)))
REPO = os.environ.get("VERIF_REPO", "/repo")
WORK = os.path.join(VERIF, ".work")
SPECS = os.path.join(VERIF, "specs")
HARNESS = os.path.join(VERIF, "harness")
BIN = os.path.join(WORK, "bin")
NPROC = int(os.environ.get("VERIF_NPROC", "16"))

GOENV = dict(os.environ, GOFLAGS="-mod=mod", GOPROXY="off", GOSUMDB="off",
             GOTOOLCHAIN="local", CGO_ENABLED="0")


class Infra(Exception):
    """Infrastructure problem: no verdict (exit 2)."""


def log(*a):
    print(*a, file=sys.stderr, flush=True)


def seed():
    try:
        return int(os.environ.get("VERIF_SEED", "1"))
    except ValueError:
        return 1


def scratch(name):
    d = os.path.join(WORK, "scratch", "%s-%d" % (name, os.getpid()))
    shutil.rmtree(d, ignore_errors=True)
    os.makedirs(d)
    return d


# --------------------------------------------------------------------------
# building the harness against /repo's current working tree

def build_harness(cmds=("replay",)):
    os.makedirs(BIN, exist_ok=True)
    # go.sum must match the repository's
    try:
        shutil.copy(os.path.join(REPO, "go.sum"), os.path.join(HARNESS, "go.sum"))
    except OSError:
        pass
    for c in cmds:
        out = os.path.join(BIN, c)
        p = subprocess.run(["go", "build", "-tags", "verif", "-o", out, "./cmd/" + c],
                           cwd=HARNESS, env=GOENV, capture_output=True, text=True)
        if p.returncode != 0:
            raise Infra("harness build failed (cmd/%s):\n%s" % (c, p.stdout + p.stderr))
    return BIN


# --------------------------------------------------------------------------
# TLC

TLC_STATS = re.compile(r"^(\d+) states generated, (\d+) distinct states found")
SIM_STATS = re.compile(r"^The number of states generated: (\d+)")


class TlcResult:
    def __init__(self):
        self.generated = 0
        self.distinct = 0
        self.behaviours = []      # raw JSON strings
        self.violation = None     # name of violated invariant / property
        self.trace = []           # counterexample text
        self.ok = False
        self.out = ""
        self.wall = 0.0
        self.coverage = {}


def write_cfg(path, constants, init="Init", next_="Next", invariants=(), properties=(),
              view=None, action_constraints=(), constraints=(), deadlock=False, postcondition=None):
    lines = ["CONSTANTS"]
    for k, v in constants.items():
        lines.append("  %s %s" % (k, v) if v.startswith("<-") else "  %s = %s" % (k, v))
    lines.append("INIT %s" % init)
    lines.append("NEXT %s" % next_)
    if view:
        lines.append("VIEW %s" % view)
    if invariants:
        lines.append("INVARIANTS " + " ".join(invariants))
    if properties:
        lines.append("PROPERTIES " + " ".join(properties))
    for c in constraints:
        lines.append("CONSTRAINT %s" % c)
    for c in action_constraints:
        lines.append("ACTION_CONSTRAINT %s" % c)
    if postcondition:
        lines.append("POSTCONDITION %s" % postcondition)
    lines.append("CHECK_DEADLOCK %s" % ("TRUE" if deadlock else "FALSE"))
    with open(path, "w") as f:
        f.write("\n".join(lines) + "\n")


def tla_set(xs):
    return "{" + ", ".join('"%s"' % x for x in xs) + "}"


def run_tlc(module, cfg_path, workdir, simulate=None, workers=None, timeout=900, depth=None,
            extra_java=None, beh_sink=None, coverage=False):
    """Run TLC in workdir (specs are copied there). simulate = (num, depth, seed)."""
    for f in os.listdir(SPECS):
        if f.endswith(".tla"):
            shutil.copy(os.path.join(SPECS, f), workdir)
    md = tempfile.mkdtemp(prefix="md", dir=workdir)
    cmd = ["tlc", "-metadir", md, "-config", cfg_path]
    if simulate:
        num, dep, sd = simulate
        cmd += ["-workers", str(workers or 1), "-simulate", "num=%d" % num, "-depth", str(dep), "-seed", str(sd)]
    else:
        cmd += ["-workers", str(workers or NPROC)]
    if coverage:
        cmd += ["-coverage", "1"]
    cmd.append(module)
    env = dict(os.environ)
    if extra_java:
        env["JAVA_TOOL_OPTIONS"] = extra_java
    t0 = time.time()
    res = TlcResult()
    try:
        p = subprocess.Popen(["timeout", str(timeout)] + cmd, cwd=workdir, env=env,
                             stdout=subprocess.PIPE, stderr=subprocess.STDOUT, text=True, errors="replace")
    except OSError as e:
        raise Infra("cannot start tlc: %s" % e)
    keep = []
    in_trace = False
    for line in p.stdout:
        if line.startswith('<<"BEH", "'):
            j = line.rstrip("\n")[len('<<"BEH", "'):-3]
            try:
                j = json.loads('"' + j + '"')   # undo TLA+ string escaping (same as JSON's for our alphabet)
            except ValueError:
                j = j.encode().decode("unicode_escape")
            if beh_sink is not None:
                beh_sink(j)
            else:
                res.behaviours.append(j)
            continue
        keep.append(line)
        if len(keep) > 4000:
            del keep[:1000]
        m = TLC_STATS.match(line)
        if m:
            res.generated, res.distinct = int(m.group(1)), int(m.group(2))
        m = SIM_STATS.match(line)
        if m:
            res.generated = int(m.group(1))
            res.distinct = res.distinct or 0
        if line.startswith("Error: Invariant ") and "is violated" in line:
            res.violation = line.split()[2]
            in_trace = True
        elif line.startswith("Error: Action property ") or "Temporal properties were violated" in line:
            res.violation = res.violation or line.strip()
            in_trace = True
        elif "Deadlock reached" in line:
            res.violation = "Deadlock"
            in_trace = True
        if in_trace:
            res.trace.append(line)
    p.wait()
    res.wall = time.time() - t0
    res.out = "".join(keep)
    shutil.rmtree(md, ignore_errors=True)
    shutil.rmtree(os.path.join(workdir, "states"), ignore_errors=True)
    if p.returncode == 124:
        raise Infra("tlc timed out after %ds on %s" % (timeout, cfg_path))
    if res.violation is None and ("Model checking completed. No error has been found" in res.out
                                  or (simulate and res.generated > 0 and "Error:" not in res.out)):
        res.ok = True
    elif res.violation is None:
        raise Infra("tlc failed on %s:\n%s" % (cfg_path, res.out[-3000:]))
    return res


# --------------------------------------------------------------------------
# behaviours

def dedup_behaviours(raw):
    seen = set()
    out = []
    for j in raw:
        try:
            b = json.loads(j)
        except ValueError:
            continue
        key = hashlib.sha1(json.dumps([(s.get("act") or s.get("call"), s["arg"]) for s in b], sort_keys=True).encode()).hexdigest()
        if key in seen:
            continue
        seen.add(key)
        out.append(b)
    return out


def write_behaviours(path, behs):
    with open(path, "w") as f:
        for b in behs:
            f.write(json.dumps(b) + "\n")


def run_replay(beh_path, dims, nshards=None, timeout=1800, binary="replay", extra_args=()):
    """Run the replay binary over the behaviour file in parallel shards."""
    nshards = nshards or NPROC
    procs = []
    scratch_dir = os.path.join(WORK, "scratch", "rt-%d" % os.getpid())
    os.makedirs(scratch_dir, exist_ok=True)
    env = dict(os.environ, VERIF_SCRATCH=scratch_dir, VERIF_STORE_TRACE=store_trace_dir())
    for i in range(nshards):
        cmd = ["timeout", str(timeout), os.path.join(BIN, binary), "-beh", beh_path, "-dims", json.dumps(dims),
               "-shard", str(i), "-nshards", str(nshards)] + list(extra_args)
        procs.append(subprocess.Popen(cmd, stdout=subprocess.PIPE, stderr=subprocess.PIPE, text=True, env=env))
    results = []
    infra = []
    for i, p in enumerate(procs):
        out, err = p.communicate()
        started = None
        for line in out.splitlines():
            try:
                r = json.loads(line)
            except ValueError:
                infra.append("unparsable result line: %r" % line[:200])
                continue
            if r.get("status") == "started":
                started = r
                continue
            started = None
            results.append(r)
        if p.returncode != 0:
            # the process died.  A Go panic whose innermost frames are the library's (not the harness's) while a
            # behaviour was being replayed is behaviour of the implementation: reported for that behaviour.
            m = re.search(r"^(panic: .*|fatal error: .*|unexpected fault address.*)$", err, re.M)
            frames = re.findall(r"^(\S+)\(.*\)$", err[m.end():] if m else "", re.M)[:4]
            frames = [f for f in frames if not f.startswith(("runtime.", "panic(", "sync.", "internal/"))]
            if started is not None and m and frames and frames[0].startswith("github.com/couchbase/moss."):
                results.append({"id": started["id"], "variant": started.get("variant", 0), "status": "crash",
                                "steps": [{"step": -1, "act": "(process died)", "mismatches": [
                                    {"what": "crash.panic", "got": "%s in %s" % (m.group(1), frames[0]), "want": "the library does not take the process down"}]}],
                                "stack": err[m.start():m.start() + 3000]})
            else:
                infra.append("replay shard %d exit %d: %s" % (i, p.returncode, err[-2000:]))
    shutil.rmtree(scratch_dir, ignore_errors=True)
    return results, infra


# --------------------------------------------------------------------------
# direction B for stores: every footer swap of every store a replay opens is recorded and
# validated against TraceStore.tla when the check has replayed everything

def store_trace_dir():
    d = os.path.join(WORK, "scratch", "st-%d" % os.getpid())
    os.makedirs(d, exist_ok=True)
    return d


def fname_seq(name):
    m = re.match(r"data-([0-9a-f]+)\.moss$", name or "")
    return int(m.group(1), 16) if m else 0


def store_trace_records(paths, point_key=None):
    """Converts recorded store events (ndjson files) into TraceStore records; store ids are made unique across files."""
    recs, nstore = [], 0
    names = {"store.open": "new", "store.persist.swap": "persist", "store.compact.swap": "compact", "store.revert.swap": "revert"}
    for fn in paths:
        base, seen = nstore, {}
        with open(fn) as f:
            for line in f:
                try:
                    e = json.loads(line)
                except ValueError:
                    continue
                if "s" not in e:
                    continue
                ev = e.get("ev") or names.get(e.get("point"))
                if not ev:
                    continue
                if e["s"] not in seen:
                    seen[e["s"]] = base + len(seen) + 1
                    nstore = max(nstore, seen[e["s"]])
                    if ev != "new":     # the store was opened before the recorder knew it
                        ev = "new"
                recs.append({"ev": ev, "s": seen[e["s"]], "file": fname_seq(e.get("file")), "pos": e.get("pos", 0), "prev": e.get("prev", 0),
                             "nsl": e.get("nsl", 0), "pers": e.get("pers", 0), "comp": e.get("comp", 0), "comppt": e.get("comppt", 0), "splice": e.get("splice", 0)})
    return recs, nstore


def validate_store_trace(rep, work, recs, nstore, prop, label):
    """TLC over TraceStore.tla; an event the specification cannot explain is reported as a violation, the
    specification re-synchronised and the rest of the trace checked (at most 12 times)."""
    if not recs:
        return 0
    unexplained = []
    for attempt in range(12):
        tf = os.path.join(work, "storetrace.ndjson")
        with open(tf, "w") as f:
            for r in recs:
                f.write(json.dumps(r) + "\n")
        cfg = os.path.join(work, "storetrace.cfg")
        write_cfg(cfg, {"TraceFile": '"%s"' % tf, "MaxStore": str(max(1, nstore))}, init="SInit", next_="SNext",
                  invariants=["Mark"], postcondition="Accepted")
        try:
            res = run_tlc("TraceStore.tla", cfg, work, workers=1, timeout=900)
            out = res.out
        except Infra as e:
            out = str(e)
        m = re.search(r'"REJECTED-AT", (\d+)', out)
        if not m:
            break
        at = int(m.group(1))
        bad = recs[at - 1]
        prev = None
        for r in reversed(recs[:at - 1]):
            if r["s"] == bad["s"]:
                prev = r
                break
        unexplained.append({"event": at, "record": bad, "previous_of_that_store": prev})
        recs.insert(at - 1, dict(bad, ev="resync"))
    rep.extra["store_trace"] = {"source": label, "footer_swaps_validated": len([r for r in recs if r["ev"] not in ("new", "resync")]),
                                "stores": nstore, "unexplained": unexplained[:10]}
    for u in unexplained:
        rep.violation("a footer swap is not a step of the store's footer dynamics (TraceStore): %s after %s" % (json.dumps(u["record"]), json.dumps(u["previous_of_that_store"])),
                      {"property": prop, "engine": "tracestore", "event": u})
    return len(recs)


def validate_replay_store_traces(rep, work, prop):
    d = store_trace_dir()
    paths = sorted(os.path.join(d, f) for f in os.listdir(d) if f.endswith(".ndjson"))
    recs, nstore = store_trace_records(paths)
    n = validate_store_trace(rep, work, recs, nstore, prop, "the stores opened by this check's replays")
    shutil.rmtree(d, ignore_errors=True)
    return n


# --------------------------------------------------------------------------
# known findings

def load_findings():
    path = os.path.join(VERIF, "known_findings.json")
    if not os.path.exists(path):
        return []
    with open(path) as f:
        data = json.load(f)
    return [e for e in data.get("open", [])]


def match_finding(findings, prop, mm, ctx):
    """Return the open finding that explains mismatch mm (a dict) or None."""
    for f in findings:
        if prop not in f.get("properties", [f.get("property")]):
            continue
        sigs = f.get("signature_any") or [f.get("signature", {})]
        if any(_sig_matches(sig, mm, ctx) for sig in sigs):
            return f
    return None


def _sig_matches(sig, mm, ctx):
    for _ in (0,):
        if "what" in sig and not re.search(sig["what"], mm.get("what", "")):
            continue
        if "got" in sig and not re.search(sig["got"], mm.get("got", "")):
            continue
        if "want" in sig and not re.search(sig["want"], mm.get("want", "")):
            continue
        if "dims" in sig and any(ctx.get("dims", {}).get(k) != v for k, v in sig["dims"].items()):
            continue
        if "path" in sig and not re.search(sig["path"], mm.get("path", "")):
            continue
        if "pred" in sig and sig["pred"] and not mm.get("pred_match", False):
            continue
        if "note" in sig and mm.get("note") != sig["note"]:
            continue
        if "step_lacks" in sig and any(re.search(sig["step_lacks"], w) for w in mm.get("step_whats", [])):
            continue
        return True
    return False


# --------------------------------------------------------------------------
# evidence and reporting

class Report:
    def __init__(self, prop, tier, level="model_checking"):
        self.prop = prop
        self.tier = tier
        self.level = level
        self.t0 = time.time()
        self.states = 0
        self.transitions = 0
        self.traces = 0
        self.samples = []
        self.nontrivial = set()
        self.evaluations = 0
        self.rule = ""
        self.violations = []     # (description, replay path)
        self.known = collections.OrderedDict()
        self.drift = 0
        self.configs = []
        self.assumptions = []
        self.extra = {}
        self.exhaustive = False
        self.infra = []

    def add_tlc(self, name, res, constants=None, exhaustive=True):
        self.states += res.distinct or res.generated
        self.transitions += res.generated
        self.configs.append({"config": name, "distinct_states": res.distinct, "states_generated": res.generated,
                             "wall_s": round(res.wall, 1), "exhaustive": exhaustive, "constants": constants or {}})

    def violation(self, desc, replay_obj):
        os.makedirs(os.path.join(VERIF, "evidence", "replays"), exist_ok=True)
        blob = json.dumps(replay_obj, sort_keys=True)
        hname = hashlib.sha1(blob.encode()).hexdigest()[:12]
        path = os.path.join(VERIF, "evidence", "replays", "%s-%s.json" % (self.prop, hname))
        with open(path, "w") as f:
            f.write(blob)
        self.violations.append((desc, path))

    def finish(self):
        wall = time.time() - self.t0
        cov = {
            "states": max(self.states, 0),
            "transitions": max(self.transitions, 0),
            "traces_validated_against_impl": self.traces,
            "samples": self.samples[:5] or ["(none)"],
            "evaluations": self.evaluations,
            "distinct_nontrivial": len(self.nontrivial),
            "rule": self.rule,
            "exhaustive": self.exhaustive,
            "configs": self.configs,
            "known_findings_matched": {k: v for k, v in self.known.items()},
            "model_drift_notes": self.drift,
        }
        cov.update(self.extra)
        ev = {
            "property_id": self.prop,
            "tier": self.tier,
            "seed": seed(),
            "level": self.level,
            "coverage": cov,
            "assumptions": self.assumptions,
            "wall_s": round(wall, 2),
            "violations": len(self.violations),
        }
        os.makedirs(os.path.join(VERIF, "evidence"), exist_ok=True)
        with open(os.path.join(VERIF, "evidence", "%s.json" % self.prop), "w") as f:
            json.dump(ev, f, indent=1, sort_keys=True)
        for fid, n in self.known.items():
            print("KNOWN-FINDING: property=%s %s (%d occurrences this run)" % (self.prop, fid, n))
        if self.infra and not self.violations:
            for i in self.infra[:10]:
                log("INFRA:", i)
            return 2
        for desc, path in self.violations[:20]:
            print("VIOLATION property=%s replay=%s" % (self.prop, path))
            log("  ", desc)
        return 1 if self.violations else 0


def main_wrapper(fn):
    try:
        rc = fn()
    except Infra as e:
        log("INFRA: %s" % e)
        rc = 2
    except subprocess.TimeoutExpired as e:
        log("INFRA: timeout %s" % e)
        rc = 2
    except Exception:      # a bug of the machinery is never a verdict about the implementation
        import traceback
        log("INFRA: internal error of the check\n" + traceback.format_exc())
        rc = 2
    sys.exit(rc)
