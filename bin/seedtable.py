#!/usr/bin/env python3
"""Prints the detection matrix of DESIGN.md section 15 from seeded/*/meta.json
(first evaluation = meta['ran'], later rounds = meta['rounds'])."""
import json, os, re, sys
VERIF = os.path.dirname(os.path.dirname(os.path.abspath(__file__)))
SUMMARY = {}
sp = os.path.join(VERIF, "seeded", "SUMMARY.json")
if os.path.exists(sp):
    SUMMARY = json.load(open(sp))


def first_round(meta, prop):
    for l in meta.get("ran", []):
        m = re.match(r"bin/check (\w+) --tier quick \(with change\): exit (\d+), (\d+) VIOLATION", l)
        if m and m.group(1) == prop:
            return int(m.group(2))
    return None


def main():
    rows = []
    for sid in sorted(os.listdir(os.path.join(VERIF, "seeded"))):
        mp = os.path.join(VERIF, "seeded", sid, "meta.json")
        if not os.path.exists(mp):
            continue
        meta = json.load(open(mp))
        props = meta.get("breaks", [sid])
        prop = props[0]
        r1 = first_round(meta, prop)
        if r1 is None and meta.get("rounds"):
            r1 = meta["rounds"][0]["results"].get(prop, {}).get("exit")
        last = None
        det_by = []
        for rd in meta.get("rounds", []):
            for p, d in rd["results"].items():
                if p == prop:
                    last = d["exit"]
                if d["exit"] == 1 and p not in det_by:
                    det_by.append(p)
        if r1 == 1 and prop not in det_by:
            det_by.insert(0, prop)
        s = SUMMARY.get(sid, {})
        rows.append("| %s | %s | %s | %s | %s | %s |" % (
            sid, s.get("change", ""), s.get("needs", ""),
            {1: "detected", 0: "missed", None: "-"}.get(r1, "exit %s" % r1),
            ("detected by " + ", ".join(det_by)) if (last != 1 and det_by and prop not in det_by) else
            {1: "detected", 0: "MISSED", None: ("detected (first evaluation, not re-run)" if r1 == 1 else "(not re-run)")}.get(last, "exit %s" % last),
            s.get("by", "")))
    print("| id | the change | what it needs to manifest | first evaluation | after strengthening (final tree) | what catches it |")
    print("|---|---|---|---|---|---|")
    print("\n".join(rows))


main()
